"""C17 helper: the real replication components inside an unmodified Simulation + Network.

A *scenario* (plain JSON-able dict) fixes the protocol, the topology, the client operations with their
instants, and -- per network route and per store -- a script of per-message / per-operation latencies
(so replication messages for one key overtake each other).  `execute(sc)` builds the real objects,
runs the real event loop to exhaustion and returns the raw observation log plus the event list that
specs/repl/ReplTrace.tla validates.

Observation uses only public extension points of the repository:
  * KVStore subclasses whose put()/get() wrap the inherited generators (log start / end, optional
    extra scripted delay before delegating),
  * node subclasses whose handle_event() logs the arrival and wraps the inherited generator so that
    store operations can be attributed to the handler invocation that issued them,
  * a SimFuture subclass whose resolve() logs the instant a client reply resolves (all replica
    stores are snapshotted there),
  * LatencyDistribution subclass reading the per-route script,
  * a harness entity for snapshots / end markers.
Nothing in /repo is patched.
"""
from __future__ import annotations

import random

from happysimulator.components.datastore.kv_store import KVStore
from happysimulator.components.datastore.replicated_store import ConsistencyLevel, ReplicatedStore
from happysimulator.components.network.link import NetworkLink
from happysimulator.components.network.network import Network
from happysimulator.components.replication.chain_replication import ChainNode, ChainNodeRole
from happysimulator.components.replication.conflict_resolver import (
    CustomResolver,
    LastWriterWins,
    VectorClockMerge,
    VersionedValue,
)
from happysimulator.components.replication.multi_leader import LeaderNode
from happysimulator.components.replication.primary_backup import BackupNode, PrimaryNode, ReplicationMode
from happysimulator.core.entity import Entity
from happysimulator.core.event import Event
from happysimulator.core.sim_future import SimFuture
from happysimulator.core.simulation import Simulation
from happysimulator.core.temporal import Duration, Instant
from happysimulator.distributions.latency_distribution import LatencyDistribution

MODES = {"async": ReplicationMode.ASYNC, "semi": ReplicationMode.SEMI_SYNC, "sync": ReplicationMode.SYNC}
ODD = 999          # encoding of a store value that is not one of the written integers


def key(k):
    return f"k{k}"


def enc(v):
    if v is None:
        return 0
    if isinstance(v, int) and not isinstance(v, bool) and 0 < v < ODD:
        return v
    return ODD


def cell(v):
    """Multi-leader store cell: sorted list of the write ids the value contains ([] = absent).  Values are
    tuples of write ids: (w,) for a client write, longer for a value built by a merging resolver."""
    if v is None:
        return []
    if isinstance(v, tuple) and v and all(isinstance(x, int) and not isinstance(x, bool) and 0 < x < ODD for x in v):
        return sorted(set(v))
    return [ODD]


def wid(v):
    """Write id of a client-written value (multi-leader: the 1-tuple (w,); elsewhere the int w)."""
    if isinstance(v, tuple):
        return enc(v[0]) if len(v) == 1 else ODD
    return enc(v)


def union_version(a, b):
    """What a merging resolver builds from two concurrent versions: union of the values, element-wise max of
    the vector clocks (commutative, associative, idempotent)."""
    va, vb = a.vector_clock or {}, b.vector_clock or {}
    return VersionedValue(value=tuple(sorted(set(a.value) | set(b.value))),
                          timestamp=max(a.timestamp, b.timestamp), writer_id=max(a.writer_id, b.writer_id),
                          vector_clock={n: max(va.get(n, 0), vb.get(n, 0)) for n in sorted(set(va) | set(vb))})


def union_all(key_, versions):
    out = versions[0]
    for v in versions[1:]:
        out = union_version(out, v)
    return out


class ScriptedLatency(LatencyDistribution):
    """k-th message on the route gets the k-th scripted latency, later ones the default."""

    def __init__(self, script, default):
        super().__init__(float(default))
        self.script = list(script)
        self.used = 0

    def get_latency(self, current_time):
        v = self.script[self.used] if self.used < len(self.script) else self._mean_latency
        self.used += 1
        return Duration.from_seconds(float(v))


class LoggedKV(KVStore):
    """Real KVStore; put/get log start and end, optionally preceded by a scripted extra delay."""

    def __init__(self, name, world, idx, base_w, base_r, put_script, get_script):
        super().__init__(name, read_latency=base_r, write_latency=base_w)
        self.w, self.idx = world, idx
        self.base_w, self.base_r = base_w, base_r
        self.put_script, self.get_script = list(put_script), list(get_script)
        self.nput = self.nget = 0

    def _extra(self, script, n, base):
        if n < len(script):
            return max(0.0, float(script[n]) - base)
        return 0.0

    def put(self, key_, value):
        ctx = self.w.ctx
        extra = self._extra(self.put_script, self.nput, self.base_w)
        self.nput += 1
        self.w.rec("ps", self.idx, ctx, k=key_, v=value)
        if extra > 0:
            yield extra
        yield from super().put(key_, value)
        self.w.rec("pd", self.idx, ctx, k=key_, v=value, st=self.w.store_of(self.idx))

    @property
    def write_latency(self):
        """A node that waits the store's write latency WITHOUT storing (a superseded replicated write) is
        observed here; the wait takes the next slot of the put script like a real put would."""
        n = self.nput
        self.nput += 1
        self.w.rec("vs", self.idx, self.w.ctx)
        return float(self.put_script[n]) if n < len(self.put_script) else self.base_w

    def get(self, key_):
        ctx = self.w.ctx
        extra = self._extra(self.get_script, self.nget, self.base_r)
        self.nget += 1
        self.w.rec("gs", self.idx, ctx, k=key_)
        if extra > 0:
            yield extra
        value = yield from super().get(key_)
        node = self.w.nodes.get(self.idx)
        marks = sorted(node.dirty_keys) if self.w.proto == "chain" and node is not None else []
        self.w.rec("gd", self.idx, ctx, k=key_, v=value, marks=marks)
        return value


class ReplyFuture(SimFuture):
    """Client reply future: logs the instant it resolves (with every replica's store)."""

    def __init__(self, world, kind, ident):
        super().__init__()
        self.w, self.kind, self.ident = world, kind, ident

    def resolve(self, value=None):
        if not self.is_resolved:
            self.w.rec(self.kind, 0, self.w.ctx, ident=self.ident, reply=value, snap=self.w.snapshot())
        super().resolve(value)


class Probe(Entity):
    """Harness entity: runs a callable at an instant (snapshots, seeding, end marker)."""

    def __init__(self, world):
        super().__init__("c17probe")
        self.w = world

    def handle_event(self, event):
        event.context["metadata"]["fn"]()
        return None


class RSClient(Entity):
    """Client of a ReplicatedStore: every Write event runs one put() generator (they overlap)."""

    def __init__(self, name, rs):
        super().__init__(name)
        self.rs = rs

    def handle_event(self, event):
        md = event.context["metadata"]
        ok = yield from self.rs.put(md["key"], md["value"])
        md["reply_future"].resolve({"status": "ok" if ok else "failed"})
        return None


class _Named(Entity):
    def handle_event(self, event):
        return None


def logged(cls):
    """Subclass of a node class whose handle_event logs arrivals and tags handler segments."""

    class Logged(cls):
        c17_world = None
        c17_idx = 0

        def handle_event(self, event):
            w = self.c17_world
            ctx = w.arrival(self.c17_idx, event)
            res = super().handle_event(event)
            if hasattr(res, "send"):
                return w.tag(res, ctx)
            return res

    Logged.__name__ = "Logged" + cls.__name__
    return Logged


# seeds s such that random.seed(s); random.choice(list of length L) picks index i
def _choice_seeds():
    table = {}
    for length in (1, 2, 3, 4):
        for i in range(length):
            for s_ in range(1000):
                if random.Random(s_).choice(list(range(length))) == i:
                    table[(length, i)] = s_
                    break
    return table


CHOICE_SEED = _choice_seeds()


class World:
    def __init__(self, sc):
        self.sc = sc
        self.proto = sc["proto"]
        self.n, self.nk = sc["n"], sc["nk"]
        self.log = []
        self.ctx = None
        self.notes = []
        self.net = Network(name="net")
        self.probe = Probe(self)
        self.stores = {}
        self.nodes = {}
        self.names = {}
        self.futs = {}
        self.nwrites = 0
        self.nreads = 0
        self.active = 0          # handler generators started and not yet finished (incl. parked ones)
        self.build()

    # -- construction --------------------------------------------------------
    def mk_store(self, i):
        sc = self.sc
        bw, br = sc.get("base_w", 0.25), sc.get("base_r", 0.25)
        bw = bw[i - 1] if isinstance(bw, list) else bw
        br = br[i - 1] if isinstance(br, list) else br
        st = LoggedKV(f"s{i}", self, i, bw, br, sc.get("put", {}).get(str(i), []), sc.get("get", {}).get(str(i), []))
        self.stores[i] = st
        return st

    def link(self, a, b):
        sc = self.sc
        script = sc.get("net", {}).get(f"{a}>{b}", [])
        lat = ScriptedLatency(script, sc.get("net_default", 1.0))
        self.net.add_link(self.nodes[a], self.nodes[b], NetworkLink(name=f"l{a}_{b}", latency=lat))

    def build(self):
        sc, n = self.sc, self.n
        if self.proto == "pb":
            # node 1 = primary, 2..n = backups; a backup only needs an entity NAMED like the primary to
            # address its acks (the Network routes by name), which breaks the construction cycle
            placeholder = _Named("n1")
            B = logged(BackupNode)
            for i in range(2, n + 1):
                self.nodes[i] = B(f"n{i}", store=self.mk_store(i), network=self.net, primary=placeholder)
            P = logged(PrimaryNode)
            self.nodes[1] = P("n1", store=self.mk_store(1), backups=[self.nodes[i] for i in range(2, n + 1)],
                              network=self.net, mode=MODES[sc["mode"]])
            for i in range(2, n + 1):
                self.link(1, i)
                self.link(i, 1)
        elif self.proto == "chain":
            C = logged(ChainNode)
            for i in range(1, n + 1):
                role = ChainNodeRole.HEAD if i == 1 else ChainNodeRole.TAIL if i == n else ChainNodeRole.MIDDLE
                self.nodes[i] = C(f"n{i}", store=self.mk_store(i), network=self.net, role=role,
                                  craq_enabled=bool(sc.get("craq")))
            for i in range(1, n + 1):        # same wiring as build_chain()
                self.nodes[i].head_node = self.nodes[1]
                if i > 1:
                    self.nodes[i].prev_node = self.nodes[i - 1]
                if i < n:
                    self.nodes[i].next_node = self.nodes[i + 1]
            for a in range(1, n + 1):
                for b in range(1, n + 1):
                    if a != b:
                        self.link(a, b)
        elif self.proto == "ml":
            L = logged(LeaderNode)
            res = sc.get("resolver", "lww")
            for i in range(1, n + 1):
                if res == "lww":
                    r = LastWriterWins()
                elif res == "vcm":
                    r = VectorClockMerge()
                elif res == "vcm_fn":
                    r = VectorClockMerge(merge_fn=lambda k, a, b: LastWriterWins().resolve(k, [a, b]))
                elif res == "custom":
                    r = CustomResolver(lambda k, vs: max(vs, key=lambda v: (v.timestamp, v.writer_id)))
                elif res == "vcm_union":        # merging resolvers: the winner is a NEW VersionedValue
                    r = VectorClockMerge(merge_fn=lambda k, a, b: union_version(a, b))
                elif res == "custom_union":
                    r = CustomResolver(union_all)
                else:
                    r = None
                self.nodes[i] = L(f"n{i}", store=self.mk_store(i), network=self.net, conflict_resolver=r,
                                  anti_entropy_interval=float(sc.get("ae_interval", 1e9)))
            for i in range(1, n + 1):
                self.nodes[i].add_peers([self.nodes[j] for j in range(1, n + 1) if j != i])
            for a in range(1, n + 1):
                for b in range(1, n + 1):
                    if a != b:
                        self.link(a, b)
        elif self.proto == "rs":
            # n replica KVStores behind one ReplicatedStore; node n+1 is the client entity
            reps = [self.mk_store(i) for i in range(1, n + 1)]
            level = {"one": ConsistencyLevel.ONE, "quorum": ConsistencyLevel.QUORUM,
                     "all": ConsistencyLevel.ALL}[sc.get("level", "quorum")]
            self.rs = ReplicatedStore("rs", replicas=reps, read_consistency=level, write_consistency=level)
            self.nodes[n + 1] = logged(RSClient)(f"n{n + 1}", self.rs)
        else:
            raise ValueError(self.proto)
        for i, nd in self.nodes.items():
            nd.c17_world, nd.c17_idx = self, i
            self.names[nd.name] = i

    # -- observation -----------------------------------------------------------
    def now(self):
        return self.net.now.to_seconds()

    def store_of(self, i):
        st = self.stores[i]
        f = cell if self.proto == "ml" else enc
        return [f(st.get_sync(key(k))) for k in range(1, self.nk + 1)]

    def snapshot(self):
        return [self.store_of(i) for i in range(1, self.n + 1)]

    def extra_state(self):
        out = {}
        if self.proto == "chain":
            out["dirty"] = [sorted(int(k[1:]) for k in self.nodes[i].dirty_keys) for i in range(1, self.n + 1)]
        if self.proto == "ml":
            out["ver"] = [[cell(self.nodes[i].versions[key(k)].value) if key(k) in self.nodes[i].versions else []
                           for k in range(1, self.nk + 1)] for i in range(1, self.n + 1)]
        return out

    def rec(self, e, n, ctx, **kw):
        r = {"e": e, "n": n, "t": self.now(), "ctx": ctx}
        r.update(kw)
        self.log.append(r)

    def arrival(self, i, event):
        md = event.context.get("metadata", {})
        ctx = {"type": event.event_type, "at": i}
        for f in ("key", "value", "seq", "source"):
            if f in md:
                ctx[f] = md[f]
        rf = md.get("reply_future")
        if isinstance(rf, ReplyFuture):
            ctx["ident"] = rf.ident
        if event.event_type == "Replicate" and "vector_clock" in md:
            vc = md.get("vector_clock") or {}
            ctx["vc"] = [int(vc.get(f"n{j}", 0)) for j in range(1, self.n + 1)]
        self.rec("arr", i, ctx)
        return ctx

    def tag(self, gen, ctx):
        """Drive the node's handler generator, exposing which invocation is executing."""
        val = None
        self.active += 1
        first = True
        while True:
            if not first and ctx["type"] in ("Replicate", "Propagate") and ctx["at"] in self.stores:
                self.rec("res", ctx["at"], ctx, st=self.store_of(ctx["at"]))
            first = False
            prev, self.ctx = self.ctx, ctx
            try:
                y = gen.send(val)
            except StopIteration as stop:
                self.active -= 1
                self.rec("fin", ctx["at"], ctx)
                return stop.value
            finally:
                self.ctx = prev
            val = yield y

    # -- operations ------------------------------------------------------------
    def at(self, t, fn):
        return Event(time=Instant.from_seconds(float(t)), event_type="c17probe", target=self.probe,
                     context={"metadata": {"fn": fn}})

    def events(self):
        evs = []
        for op in self.sc["ops"]:
            t, kind = op[0], op[1]
            if kind == "w":
                self.nwrites += 1
                w = self.nwrites
                f = ReplyFuture(self, "ack", w)
                self.futs[("w", w)] = f
                evs.append(Event(time=Instant.from_seconds(float(t)), event_type="Write", target=self.nodes[op[2]],
                                 context={"metadata": {"key": key(op[3]), "value": (w,) if self.proto == "ml" else w,
                                                       "reply_future": f}}))
            elif kind == "r":
                self.nreads += 1
                r = self.nreads
                f = ReplyFuture(self, "rr", r)
                self.futs[("r", r)] = f
                evs.append(Event(time=Instant.from_seconds(float(t)), event_type="Read", target=self.nodes[op[2]],
                                 context={"metadata": {"key": key(op[3]), "reply_future": f}}))
            elif kind == "ae":
                i, j = op[2], op[3]
                peers = [p for p in range(1, self.n + 1) if p != i]
                seed = CHOICE_SEED[(len(peers), peers.index(j))]
                evs.append(self.at(t, lambda seed=seed: random.seed(seed)))
                evs.append(Event(time=Instant.from_seconds(float(t)), event_type="AntiEntropy",
                                 target=self.nodes[i]))
                evs.append(self.at(t + self.sc.get("ae_window", 0.5),
                                   lambda i=i, j=j: self.rec("aesnap", i, None, peer=j, snap=self.snapshot(),
                                                             busy=self.active > 0, **self.extra_state())))
            elif kind == "snap":
                evs.append(self.at(t, lambda lab=op[2]: self.rec("snap", 0, None, label=lab, snap=self.snapshot(),
                                                                 **self.extra_state())))
            elif kind == "aestart":     # periodic anti-entropy daemons of the component itself
                def start(i=op[2]):
                    ev = self.nodes[i].get_anti_entropy_event()
                    return ev
                evs.append(("deferred", t, start))
            elif kind == "aestop":      # public API only: a leader without peers lets its periodic daemon die
                def stop():
                    for nd in self.nodes.values():
                        nd.add_peers([])
                evs.append(self.at(t, stop))
            elif kind == "aerestore":
                def restore():
                    for i, nd in self.nodes.items():
                        nd.add_peers([self.nodes[j] for j in range(1, self.n + 1) if j != i])
                evs.append(self.at(t, restore))
            elif kind == "peers":       # [t, "peers", i, on]: leader i's peer list emptied / restored
                def setp(i=op[2], on=op[3]):
                    self.nodes[i].add_peers([self.nodes[j] for j in range(1, self.n + 1) if j != i] if on else [])
                evs.append(self.at(t, setp))
            elif kind == "mark":
                evs.append(self.at(t, lambda lab=op[2]: self.rec("mark", 0, None, label=lab)))
            else:
                raise ValueError(kind)
        return evs

    def run(self):
        ents = [self.net, self.probe, *self.stores.values(), *self.nodes.values()]
        if self.proto == "rs":
            ents.append(self.rs)
        sim = Simulation(entities=ents)
        state = random.getstate()
        err = None
        try:
            random.seed(self.sc.get("rseed", 0))
            for ev in self.events():
                if isinstance(ev, tuple):
                    _, t, start = ev
                    sim.schedule(self.at(t, lambda start=start: self._sched(sim, start)))
                else:
                    sim.schedule(ev)
            sim.run()
        except Exception as ex:       # noqa: BLE001 -- an exception of the real code is an observation
            err = f"{type(ex).__name__}: {ex}"
        finally:
            random.setstate(state)
        self.rec("end", 0, None, snap=self.snapshot(), quiet=err is None, parked=self.active, **self.extra_state())
        return err

    def _sched(self, sim, start):
        ev = start()
        if ev is not None:
            sim.schedule(ev)


# ---------------------------------------------------------------------------
# raw log -> ReplTrace events

def _ev(e, n=0, w=0, k=0, m=None, x=0, st=None, snap=None, vc=None):
    """One ReplTrace event record; fields a record kind never reads are left out (compact batches)."""
    r = {"e": e, "n": n, "w": w, "k": k, "x": x}
    if m is not None:
        r["m"] = m
    if st is not None:
        r["st"] = list(st)
    if snap is not None:
        r["snap"] = [list(row) for row in snap]
    if vc is not None:
        r["vc"] = list(vc)
    return r


def _k(s):
    try:
        return int(str(s)[1:])
    except ValueError:
        return 0


def to_trace(world, tid, conf=True):
    sc, proto = world.sc, world.proto
    ev = []
    notes = []
    if proto == "ml":
        times = sorted({r["t"] for r in world.log if r["e"] == "arr" and r["ctx"]["type"] == "Write"})
        rank = {t: i + 1 for i, t in enumerate(times)}
    # ml: anti-entropy exchanges count only if the request of the chosen initiator reached the chosen peer
    ae_seen = {}
    if proto == "ml":
        for idx, r in enumerate(world.log):
            if r["e"] == "arr" and r["ctx"]["type"] == "AntiEntropyRequest":
                ae_seen.setdefault((world.names.get(r["ctx"].get("source"), 0), r["n"]), []).append(idx)
    pos_of = {id(r): i for i, r in enumerate(world.log)}
    waiting = {}
    last_ae_snap = -1
    for r in world.log:
        e, n, ctx = r["e"], r["n"], r["ctx"] or {}
        typ = ctx.get("type")
        if e == "arr":
            if typ == "Write":
                w = wid(ctx.get("value"))
                ev.append(_ev("w", n=n, w=w, k=_k(ctx.get("key")), x=rank[r["t"]] if proto == "ml" else 0))
            elif typ == "Read":
                if "source" in ctx:
                    ev.append(_ev("rv", n=n, m="read", w=ctx.get("ident", 0)))
                else:
                    ev.append(_ev("rs", n=n, w=ctx.get("ident", 0), k=_k(ctx.get("key"))))
            elif typ == "WriteAck":
                ev.append(_ev("rv", n=n, m="wack", w=int(ctx.get("seq", 0))))
            elif typ == "CommitNotify":
                ev.append(_ev("rv", n=n, m="commit", w=int(ctx.get("seq", 0))))
            elif typ == "Replicate" and proto == "pb":
                ev.append(_ev("rv", n=n, m="repl", w=enc(ctx.get("value"))))
            elif typ == "Propagate":
                ev.append(_ev("rv", n=n, m="prop", w=enc(ctx.get("value"))))
            elif typ == "Replicate" and proto == "ml":
                ev.append(_ev("rv", n=n, m="repl", w=wid(ctx.get("value")), vc=ctx.get("vc", [])))
            elif typ == "ReplicationAck":
                ev.append(_ev("rv", n=n, m="rack", w=int(ctx.get("seq", 0))))
        elif e == "vs":
            waiting[id(ctx)] = True
        elif e == "res":
            # first resume of a Replicate/Propagate handler that waited the latency without storing
            if waiting.pop(id(ctx), False):
                ev.append(_ev("sd", n=n, w=enc(ctx.get("value")), st=r["st"]))
        elif e == "pd":
            if typ in ("Write", "Replicate", "Propagate"):
                # multi-leader: identified by the write the handler is about (a merging resolver stores a union)
                ev.append(_ev("pd", n=n, w=wid(ctx.get("value")) if proto == "ml" else enc(r["v"]), st=r["st"]))
        elif e == "gd":
            if proto == "chain":
                ev.append(_ev("gd", n=n, w=ctx.get("ident", 0)))
        elif e == "ack":
            ev.append(_ev("ack", w=r["ident"], snap=r["snap"]))
        elif e == "rr":
            rep = r["reply"] if isinstance(r["reply"], dict) else {}
            ev.append(_ev("rr", w=r["ident"], x=enc(rep.get("value")), snap=r["snap"]))
        elif e == "aesnap":
            i, j = n, r["peer"]
            here = pos_of[id(r)]
            got = [p for p in ae_seen.get((i, j), []) if last_ae_snap < p < here]
            if got and not r["busy"]:
                ev.append(_ev("ae", n=i, x=j, snap=r["snap"]))
            else:
                notes.append(f"anti-entropy {i}->{j} not observed as completed exchange")
            last_ae_snap = here
        elif e == "end":
            ev.append(_ev("end", x=1 if r["quiet"] else 0, snap=r["snap"]))
    tr = {"id": tid, "proto": proto, "mode": sc.get("mode", "-"), "n": world.n, "nk": world.nk,
          "craq": bool(sc.get("craq", False)), "conf": bool(conf), "ev": ev}
    return tr, notes


def execute(sc, tid=0, conf=True):
    w = World(sc)
    err = w.run()
    tr, notes = to_trace(w, tid, conf)
    return w, tr, err, notes
