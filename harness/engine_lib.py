"""Shared engine-level machinery: scripted programs on the real engine, probe log -> trace JSON."""
from __future__ import annotations

import random

from happysimulator.core.entity import Entity
from happysimulator.core.event import Event
from happysimulator.core.simulation import Simulation
from happysimulator.core.temporal import Instant

from .probe import EngineProbe, ProbeOverflow

INF = 999999


class Program:
    """A model program: events by label with (t, tgt, daemon, parent label, cancelled-by label).
    Pre-run events have parent 0.  Labels are 1..n in (model) creation order."""

    def __init__(self, events, end_t=INF, expected=None, ambiguous=False, crashes=()):
        self.events = events            # list of dicts: t, tgt, d, par, cby
        self.crashes = list(crashes)    # (tgt, t1, t2): target down from t1+1/2 tick to t2+1/2 tick
        self.end_t = end_t
        self.expected = expected        # model's delivered label sequence (or None)
        self.ambiguous = ambiguous      # model had a (t, idx) tie: its order is one of several

    @classmethod
    def from_state(cls, st, end_t):
        evs = [dict(t=e["t"], tgt=e["tgt"], d=e["d"], par=e["par"], cby=e["cby"], idx=e["idx"])
               for e in st["ev"]]
        keys = [(e["t"], e["idx"]) for e in evs]
        return cls(evs, end_t, list(st["delivered"]), ambiguous=len(set(keys)) != len(keys))

    def key(self):
        return (tuple((e["t"], e["tgt"], e["d"], e["par"], e["cby"]) for e in self.events), self.end_t)


class ScriptEntity(Entity):
    """Entity whose handler produces exactly what the program says for the delivered label."""

    def __init__(self, name, world):
        super().__init__(name)
        self.w = world

    @property
    def level(self):
        """A metric for MetricBreakpoint: deliveries so far in this world, modulo 3."""
        return len(self.w.delivered) % 3

    def handle_event(self, event):
        w = self.w
        md = event.context["metadata"]
        # the entity is stateless; what it knows about an event lives in the event's own metadata
        md["seen"] = md.get("seen", 0) + 1
        lab = md.get("label")
        if lab is None:             # an event that no program made (a source tick): name it by its instant
            lab = 70000 + self.now.nanoseconds // w.step
        if md["seen"] > 1:          # the same metadata reached a handler twice: make it visible
            lab = lab + 100000 * (md["seen"] - 1)
        w.delivered.append((lab, self.now.nanoseconds, self.name))
        outs = [w.make(k) for k in w.children.get(lab, ())]
        for k in w.cancels.get(lab, ()):
            ev = w.registry.get(k)
            if ev is not None:
                ev.cancel()
        form = w.form
        if form == "list":
            return outs
        if form == "single":
            if not outs:
                return None
            return outs[0] if len(outs) == 1 else outs
        if form == "gen_yield":       # events yielded alongside a zero delay, then finish
            return self._gen_yield(outs)
        if form == "gen_return":      # generator that returns its events immediately
            return self._gen_return(outs)
        if form == "gen_sleep":       # side effects now, then the process sleeps 1-2 ticks and finishes
            return self._gen_sleep(outs, 1 + (lab % 2 if isinstance(lab, int) else 0))
        raise ValueError(form)

    def _gen_yield(self, outs):
        yield 0.0, outs
        return None

    def _gen_return(self, outs):
        return outs
        yield  # pragma: no cover

    def _gen_sleep(self, outs, ticks):
        yield 0.0, outs
        ns = ticks * self.w.step
        d = ns / 1e9
        if int(d * 1_000_000_000) != ns:          # pick a float that converts to exactly `ns`
            d = (ns + 0.5) / 1e9
        yield d
        return None


class World:
    def __init__(self, prog: Program, form="list", step_ns=1, shuffle_push=None):
        self.prog = prog
        self.form = form
        self.step = step_ns
        self.delivered = []
        self.registry = {}
        self.children = {}
        self.cancels = {}
        for i, e in enumerate(prog.events, start=1):
            if e["par"]:
                self.children.setdefault(e["par"], []).append(i)
            if e["cby"]:
                self.cancels.setdefault(e["cby"], []).append(i)
        names = sorted({e["tgt"] for e in prog.events}) or ["A"]
        self.ents = {n: ScriptEntity(n, self) for n in names}
        self.shuffle_push = shuffle_push

    def make(self, k):
        e = self.prog.events[k - 1]
        ev = Event(time=Instant(e["t"] * self.step), event_type=f"E{k}", target=self.ents[e["tgt"]],
                   daemon=e["d"], context={"metadata": {"label": k}})
        self.registry[k] = ev
        return ev

    def build(self, control=False, recorder=None, early=0):
        """early = number of pre-run events (in label order) created before Simulation() exists."""
        end = None if self.prog.end_t == INF else Instant(self.prog.end_t * self.step)
        kw = {}
        if recorder is not None:
            kw["trace_recorder"] = recorder
        labels = [i for i, e in enumerate(self.prog.events, start=1) if not e["par"]]
        pre = [self.make(i) for i in labels[:early]]
        sim = Simulation(end_time=end, entities=list(self.ents.values()), **kw)
        pre += [self.make(i) for i in labels[early:]]
        if self.shuffle_push is not None:
            self.shuffle_push.shuffle(pre)
        for ev in pre:
            sim.schedule(ev)
        # injected node faults (what CrashNode does: a flag on the entity), half a tick off the grid so
        # that no event of the program is due exactly at a window edge
        for (tgt, t1, t2) in self.prog.crashes:
            ent = self.ents.get(tgt)
            if ent is None or self.step < 2:
                continue
            for t, flag in ((t1, True), (t2, False)):
                sim.schedule(Event.once(time=Instant(t * self.step + self.step // 2), event_type="fault", daemon=True,
                                        fn=lambda e, ent=ent, flag=flag: setattr(ent, "_crashed", flag)))
        if control:
            _ = sim.control
        self.sim = sim
        return sim


def run_program(prog: Program, *, form="list", control=False, step_ns=1, shuffle_push=None,
                max_records=200000, early=0, prior=0, inject=None):
    """inject = random.Random: drive the run through the control surface in steps and, while paused,
    create and schedule extra events (at or after the current instant, often tying with pending ones)."""
    """Run a program on the real engine under the probe.  Returns (labels, probe, world, error)."""
    probe = EngineProbe(max_records=max_records)
    err = None
    with probe:
        w = World(prog, form=form, step_ns=step_ns, shuffle_push=shuffle_push)
        for _ in range(prior):          # unrelated earlier activity in this interpreter
            Event(time=Instant(0), event_type="noise", target=next(iter(w.ents.values())))
        sim = w.build(control=control or inject is not None, early=early)
        try:
            if inject is None:
                sim.run()
            else:
                _run_with_injection(sim, w, inject)
        except ProbeOverflow:
            err = "overflow"
        except Exception as ex:  # real-code exception on a legal program
            err = f"{type(ex).__name__}: {ex}"
        probe.log.append(["end", sim._current_time.nanoseconds if hasattr(sim, "_current_time") else 0])
    return [d[0] for d in w.delivered], probe, w, err


def _run_with_injection(sim, w, rng, max_rounds=60):
    ctl = sim.control
    ctl.pause()
    sim.run()
    names = sorted(w.ents)
    extra = 0
    for _ in range(max_rounds):
        if not sim._is_running or not sim._is_paused:
            break
        if rng.random() < 0.7 and extra < 12:
            now = sim._current_time.nanoseconds
            pend = sorted({e.time.nanoseconds for e in sim._event_heap._heap if e.time.nanoseconds >= now})
            for _ in range(rng.randint(1, 3)):
                # tie with a pending event most of the time
                t = rng.choice(pend) if pend and rng.random() < 0.7 else now + rng.randint(0, 2) * w.step
                extra += 1
                sim.schedule(Event(time=Instant(t), event_type=f"X{extra}", target=w.ents[rng.choice(names)],
                                   daemon=rng.random() < 0.2, context={"metadata": {"label": 1000 + extra}}))
        ctl.step(rng.randint(1, 3))
    if sim._is_paused:
        ctl.resume()


def to_trace(tid, log, end_ns, targets=None, crashes=(), step=1):
    """Probe log -> trace dict for EngineTrace.tla; times are mapped to dense ranks."""
    def down(e, t_ns):
        name = (targets or {}).get(e)
        return any(name == tg and t1 * step + step // 2 <= t_ns < t2 * step + step // 2 for tg, t1, t2 in crashes)
    times = set()
    for r in log:
        if r[0] == "c":
            times.add(r[2])
        elif r[0] in ("i", "p", "end") and len(r) > 2 - (r[0] == "end"):
            times.add(r[-1])
    if end_ns is not None:
        times.add(end_ns)
    times.discard(-1)
    order = sorted(times)
    rank = {t: i for i, t in enumerate(order)}
    rank[-1] = 0
    evs = []
    out = []
    for r in log:
        k = r[0]
        if k == "c":
            assert r[1] == len(evs) + 1
            evs.append([rank[r[2]], bool(r[3]), bool(r[4]) if len(r) > 4 else bool(r[3]), bool(down(r[1], r[2]))])
        elif k == "p":
            out.append(["p", r[1], rank.get(r[2], 0)])
        elif k == "i":
            # a target without a clock (callback entities of Event.once) cannot be asked for `now`
            out.append(["i", r[1], evs[r[1] - 1][0] if r[2] == -1 else rank[r[2]] if r[2] in rank else 888888])
        elif k == "end":
            out.append(["end", rank[r[1]]])
        else:
            out.append(list(r))
    return {"id": tid, "endT": INF if end_ns is None else rank[end_ns], "evs": evs, "log": out}


def random_program(rng: random.Random, *, max_pre=8, max_total=30, max_t=6, targets=("A", "B", "C"),
                   p_daemon=0.25, p_cancel=0.15, burst=False, allow_past=True):
    """Random program in the same vocabulary as Engine.tla but beyond its bounds."""
    n_pre = rng.randint(1, max_pre)
    evs = []
    burst_t = rng.randint(0, max_t)
    for _ in range(n_pre):
        t = burst_t if burst and rng.random() < 0.8 else rng.randint(0, max_t)
        evs.append(dict(t=t, tgt=rng.choice(targets), d=rng.random() < p_daemon, par=0, cby=0))
    i = 0
    while i < len(evs) and len(evs) < max_total:
        e = evs[i]
        i += 1
        k = rng.choice((0, 0, 1, 1, 2, 3))
        for _ in range(k):
            if len(evs) >= max_total:
                break
            dt = rng.choice((0, 0, 0, 1, 1, 2, 3)) if not (allow_past and rng.random() < 0.05) else -1
            t = max(0, e["t"] + dt)
            evs.append(dict(t=t, tgt=rng.choice(targets), d=rng.random() < p_daemon, par=i, cby=0))
    # cancels: an event created before its canceller is delivered (any earlier label or sibling)
    for j, e in enumerate(evs, start=1):
        if rng.random() < p_cancel:
            c = rng.randint(1, len(evs))
            if c != j:
                e["cby"] = c
    end_t = INF if rng.random() < 0.5 else rng.randint(0, max_t + 1)
    return Program(evs, end_t)


def add_crashes(prog: Program, rng: random.Random, max_t=6):
    """Give some targets a crash window [t1+1/2, t2+1/2) ticks (restart inside the horizon)."""
    names = sorted({e["tgt"] for e in prog.events})
    for tg in names:
        if rng.random() < 0.6:
            t1 = rng.randint(0, max_t - 1)
            prog.crashes.append((tg, t1, rng.randint(t1 + 1, max_t)))
    return prog
