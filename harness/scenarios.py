"""Small library-level scenarios run inside harness child processes (C03 determinism, C07 monitor).

Each scenario builds a model from library components with fixed seeds and runs it; simulations are
captured by harness/simrec.py, non-simulation results are returned (JSON-able) and compared too."""
from __future__ import annotations

import random


def cms_str():
    from happysimulator.sketching.count_min_sketch import CountMinSketch
    c = CountMinSketch(width=8, depth=2, seed=1)
    rng = random.Random(5)
    for _ in range(400):
        c.add(f"user-{int(rng.paretovariate(1.2)) % 41}")
    # composite keys (tuples and enums of strings; sets are left out: their repr order is hash-seed dependent) as a metrics pipeline would use them
    import enum
    Kind = enum.Enum("Kind", "GET PUT")
    c2 = CountMinSketch(width=8, depth=2, seed=2)
    keys = [(f"tenant-{i % 5}", f"/api/{i % 7}") for i in range(35)] \
        + [(Kind.GET, i) for i in range(3)]
    for _ in range(300):
        c2.add(keys[int(rng.paretovariate(1.1)) % len(keys)])
    return {"est": [c.estimate(f"user-{i}") for i in range(41)], "est2": [c2.estimate(k) for k in keys]}


def sketches_str():
    from happysimulator.sketching.bloom_filter import BloomFilter
    from happysimulator.sketching.hyperloglog import HyperLogLog
    from happysimulator.sketching.topk import TopK
    b = BloomFilter(size_bits=64, num_hashes=3, seed=3)
    h = HyperLogLog(precision=4, seed=3)
    t = TopK(k=4)
    rng = random.Random(6)
    for _ in range(300):
        x = f"k{int(rng.paretovariate(1.1)) % 57}"
        b.add(x)
        h.add(x)
        t.add(x)
    return {"bloom": [b.contains(f"k{i}") for i in range(80)], "hll": h.cardinality(),
            "topk": [[str(i.item), i.count] for i in t.top()] if hasattr(t, "top") else []}


def poisson_queue(rate=30, seed_offset=0):
    from happysimulator import Instant, Simulation, Sink, Source
    from happysimulator.components.server import Server
    from happysimulator.distributions import ExponentialLatency
    random.seed(77 + seed_offset)
    try:
        import numpy as np
        np.random.seed(77 + seed_offset)
    except Exception:
        pass
    sink = Sink("sink")
    try:
        svc = ExponentialLatency(0.05, seed=9)
    except TypeError:
        svc = ExponentialLatency(0.05)
    srv = Server("srv", concurrency=2, service_time=svc, downstream=sink)
    src = Source.poisson(rate=rate, target=srv, stop_after=3.0)
    sim = Simulation(sources=[src], entities=[srv, sink], end_time=Instant.from_seconds(5))
    sim.run()
    return {"n": getattr(sink, "events_received", None)}


def fam_c19_mq():
    from harness.families import c19_mq
    rng = random.Random(31)
    out = []
    for k in range(25):
        sc = c19_mq.random_scenario(rng)
        w = c19_mq.run_scenario(sc, (1000, 10**6)[k % 2])
        out.append(str(c19_mq.to_trace(k, sc, w[0] if isinstance(w, tuple) else w))[:4000])
    return {"traces": out}


def fam_c19_topic():
    from harness.families import c19_topic
    rng = random.Random(32)
    out = []
    for k in range(25):
        sc = c19_topic.random_scenario(rng)
        w = c19_topic.run_scenario(sc, (1000, 10**6)[k % 2])
        out.append(str(c19_topic.to_trace(k, sc, w[0] if isinstance(w, tuple) else w))[:4000])
    return {"traces": out}


SCENARIOS = {f.__name__: f for f in (cms_str, sketches_str, poisson_queue, fam_c19_mq, fam_c19_topic)}
RESULT = {}


def run(name):
    RESULT[name] = SCENARIOS[name]()
    return RESULT[name]


def fam_contention():
    """Holder/waiter pairs on every sync primitive: the waiter must wait across simulated time."""
    from happysimulator import Entity, Event, Instant, Simulation
    from happysimulator.components.resource import Resource
    from happysimulator.components.sync.barrier import Barrier
    from happysimulator.components.sync.condition import Condition
    from happysimulator.components.sync.mutex import Mutex
    from happysimulator.components.sync.rwlock import RWLock
    from happysimulator.components.sync.semaphore import Semaphore

    class Worker(Entity):
        def __init__(self, name, body, log):
            super().__init__(name)
            self.body, self.log = body, log

        def handle_event(self, event):
            yield from self.body(self)
            self.log.append((self.name, self.now.nanoseconds))

    def pair(prim, acquire, release, hold=1.0):
        log = []

        def body(w):
            yield from acquire(w)
            yield hold
            r = release(w)
            if r:
                yield 0.0, r
        ws = [Worker(f"w{i}", body, log) for i in range(3)]
        sim = Simulation(entities=[prim, *ws], end_time=Instant.from_seconds(30))
        for i, w in enumerate(ws):
            sim.schedule(Event(time=Instant.from_seconds(0.25 * i), event_type="go", target=w))
        sim.run()
        return log

    out = {}
    m = Mutex("m")
    out["mutex"] = pair(m, lambda w: m.acquire(w.name), lambda w: m.release())
    s = Semaphore("s", 1)
    out["semaphore"] = pair(s, lambda w: s.acquire(1), lambda w: s.release(1))
    rw = RWLock("rw")
    out["rwlock_w"] = pair(rw, lambda w: rw.acquire_write(), lambda w: rw.release_write())
    b = Barrier("b", 3)
    out["barrier"] = pair(b, lambda w: b.wait(), lambda w: None, hold=0.1)
    res = Resource("r", 1)
    grants = {}

    def racq(w):
        g = yield res.acquire(1)
        grants[w.name] = g

    out["resource"] = pair(res, racq, lambda w: grants[w.name].release())
    lock = Mutex("cl")
    cond = Condition("c", lock)
    log = []

    def waiter(w):
        yield from lock.acquire(w.name)
        yield from cond.wait()
        r = lock.release()
        if r:
            yield 0.0, r

    def notifier(w):
        yield 1.0
        yield from lock.acquire(w.name)
        ev = cond.notify_all()
        r = lock.release()
        yield 0.0, (ev or []) + (r or [])
    ws = [Worker("cw", waiter, log), Worker("cn", notifier, log)]
    sim = Simulation(entities=[lock, cond, *ws], end_time=Instant.from_seconds(30))
    for w in ws:
        sim.schedule(Event(time=Instant.Epoch, event_type="go", target=w))
    sim.run()
    out["condition"] = log
    return out


SCENARIOS["fam_contention"] = fam_contention


def cache_policies_str():
    """All nine eviction policies driven the way CachedStore drives them, with str keys and far more
    evictions than any bounded internal queue holds (2Q ghosts, SLRU segments, sampled LRU): the victim
    sequence must not depend on the interpreter's string hashing."""
    from happysimulator.components.datastore import eviction_policies as E
    mk = {"lru": lambda: E.LRUEviction(), "lfu": lambda: E.LFUEviction(), "fifo": lambda: E.FIFOEviction(),
          "random": lambda: E.RandomEviction(seed=3), "slru": lambda: E.SLRUEviction(0.5),
          "sampled": lambda: E.SampledLRUEviction(sample_size=3, seed=4), "clock": lambda: E.ClockEviction(),
          "twoq": lambda: E.TwoQueueEviction(0.5), "ttl": lambda: E.TTLEviction(5.0, clock_func=lambda: tick[0])}
    out = {}
    tick = [0.0]
    for name, f in mk.items():
        rng = random.Random(11)
        pol, held, victims = f(), set(), []
        tick[0] = 0.0
        for _ in range(4000):
            tick[0] += 0.01
            k = f"key-{int(rng.paretovariate(0.9)) % 600}"
            if k in held:
                pol.on_access(k)
                continue
            while len(held) >= 24:
                v = pol.evict()
                if v is None:
                    v = sorted(held)[0]
                    pol.on_remove(v)
                held.discard(v)
                victims.append(v)
            held.add(k)
            pol.on_insert(k)
        import hashlib
        out[name] = [len(victims), hashlib.sha256("|".join(victims).encode()).hexdigest()[:16]]
    return out


SCENARIOS["cache_policies_str"] = cache_policies_str


def seeded_boundary_seeds():
    """Every seed is a seed: seeded library objects built with the boundary seeds 0 and 1 (and a large
    one) must give the same samples / choices in every process."""
    from happysimulator.components.datastore import eviction_policies as E
    from happysimulator.distributions.uniform import UniformDistribution
    from happysimulator.distributions.zipf import ZipfDistribution
    out = {}
    for seed in (0, 1, 2**31 - 1):
        z = ZipfDistribution(list(range(50)), s=1.1, seed=seed)
        u = UniformDistribution(list("abcdefghij"), seed=seed)
        out[f"zipf{seed}"] = [z.sample() for _ in range(40)]
        out[f"uni{seed}"] = [u.sample() for _ in range(40)]
        r = E.RandomEviction(seed=seed)
        sl = E.SampledLRUEviction(sample_size=2, seed=seed)
        for pol, nm in ((r, "rand"), (sl, "samp")):
            for i in range(30):
                pol.on_insert(f"k{i}")
            out[f"{nm}{seed}"] = [pol.evict() for _ in range(20)]
    try:
        from happysimulator.components.sketching.topk_collector import TopKCollector  # noqa: F401
        from happysimulator.sketching.reservoir import ReservoirSampler
        for seed in (0, 1):
            rs = ReservoirSampler(size=5, seed=seed)
            for i in range(200):
                rs.add(i)
            out[f"res{seed}"] = sorted(rs.sample()) if hasattr(rs, "sample") else None
    except Exception as e:  # noqa: BLE001
        out["reservoir"] = f"skipped: {type(e).__name__}"
    return out


SCENARIOS["seeded_boundary_seeds"] = seeded_boundary_seeds


def two_sources_tie():
    """A source-only model (nothing scheduled by hand): two constant sources whose ticks coincide
    (rates 4/s and 1/s both deliver at t = 1 s, 2 s, ...) into one recording entity, plus a probe-like
    daemon source; the order of the tied deliveries must not depend on earlier activity."""
    from happysimulator import Entity, Instant, Simulation, Source

    class Rec(Entity):
        def __init__(self):
            super().__init__("rec")
            self.seen = []

        def handle_event(self, event):
            self.seen.append((self.now.nanoseconds, event.event_type))

    rec = Rec()
    fast = Source.constant(rate=4, target=rec, event_type="fast", name="fast")
    slow = Source.constant(rate=1, target=rec, event_type="slow", name="slow")
    mid = Source.constant(rate=2, target=rec, event_type="mid", name="mid")
    sim = Simulation(sources=[fast, slow, mid], entities=[rec], end_time=Instant.from_seconds(4))
    sim.run()
    return {"order": [t for _, t in rec.seen][:40]}


SCENARIOS["two_sources_tie"] = two_sources_tie


try:
    from harness.scenarios_ops import SCENARIOS as _S_ops
    SCENARIOS.update(_S_ops)
except Exception:  # pragma: no cover
    pass

try:
    from harness.scenarios_svc import SCENARIOS as _S_svc
    SCENARIOS.update(_S_svc)
except Exception:  # pragma: no cover
    pass

try:
    from harness.scenarios_data import SCENARIOS as _S_data
    SCENARIOS.update(_S_data)
except Exception:  # pragma: no cover
    pass
