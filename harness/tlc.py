"""Run TLC (exhaustive / simulate / trace validation), parse its output and state-graph dumps."""
from __future__ import annotations

import os
import re
import shutil
import subprocess
import time
from dataclasses import dataclass, field
from pathlib import Path

from . import tlaval

VERIF = Path(__file__).resolve().parent.parent
SPECS = VERIF / "specs"
WORK = VERIF / ".work"
JAR_CP = "/opt/veriftools/tla/tla2tools.jar:/opt/veriftools/tla/CommunityModules-deps.jar"


class TLCFailure(RuntimeError):
    """TLC did not produce a verdict (crash, parse error, timeout)."""


@dataclass
class TLCResult:
    ok: bool                      # completed without invariant/property violation
    generated: int = 0
    distinct: int = 0
    depth: int = 0
    violated: str | None = None   # invariant / property name, or "deadlock", "assert"
    trace: list = field(default_factory=list)   # [(action_label, state_dict)]
    printed: list = field(default_factory=list)  # parsed PrintT values (those that parse)
    printed_raw: list = field(default_factory=list)
    stdout: str = ""
    wall: float = 0.0
    cmd: str = ""
    coverage: dict = field(default_factory=dict)  # action -> (distinct, total)
    timed_out: bool = False


def workdir(label: str, fresh: bool = True) -> Path:
    d = WORK / label
    if fresh and d.exists():
        shutil.rmtree(d, ignore_errors=True)
    d.mkdir(parents=True, exist_ok=True)
    return d


def write_cfg(path: Path, *, spec: str | None = None, init: str = "Init", next_: str = "Next",
              constants: dict | None = None, invariants=(), properties=(), constraints=(),
              action_constraints=(), view: str | None = None, symmetry: str | None = None,
              postcondition: str | None = None, deadlock: bool = False, raw: str = "") -> Path:
    lines = []
    if spec:
        lines.append(f"SPECIFICATION {spec}")
    else:
        lines += [f"INIT {init}", f"NEXT {next_}"]
    if constants:
        lines.append("CONSTANTS")
        for k, v in constants.items():
            if isinstance(v, str) and v.startswith("<-"):
                lines.append(f"  {k} {v}")
            else:
                lines.append(f"  {k} = {v if isinstance(v, str) else tlaval.to_tla(v)}")
    for i in invariants:
        lines.append(f"INVARIANT {i}")
    for p in properties:
        lines.append(f"PROPERTY {p}")
    for c in constraints:
        lines.append(f"CONSTRAINT {c}")
    for c in action_constraints:
        lines.append(f"ACTION_CONSTRAINT {c}")
    if view:
        lines.append(f"VIEW {view}")
    if symmetry:
        lines.append(f"SYMMETRY {symmetry}")
    if postcondition:
        lines.append(f"POSTCONDITION {postcondition}")
    lines.append(f"CHECK_DEADLOCK {'TRUE' if deadlock else 'FALSE'}")
    if raw:
        lines.append(raw)
    path.write_text("\n".join(lines) + "\n")
    return path


_STATE_HDR = re.compile(r"^State (\d+): <(.*?)>\s*$")
_STATS = re.compile(r"(\d+) states generated, (\d+) distinct states found")
_DEPTH = re.compile(r"The depth of the complete state graph search is (\d+)")
_COV = re.compile(r"^<(\w+) line \d+, col \d+ to line \d+, col \d+ of module (\w+)>: (\d+):(\d+)")


DEFAULT_WORKERS = int(os.environ.get("VERIF_TLC_WORKERS", "16"))


def run(module: Path, cfg: Path, *, label: str, workers: int | str | None = None, simulate: str | None = None,
        depth: int | None = None, dump_dot: Path | None = None, timeout: int = 900,
        env: dict | None = None, extra: list | None = None, coverage: bool = False,
        seed: int | None = None, dfs: bool = False, keep_meta: bool = False,
        heap: str = "6g") -> TLCResult:
    if workers is None:
        workers = DEFAULT_WORKERS
    wd = WORK / label
    wd.mkdir(parents=True, exist_ok=True)
    meta = wd / "meta"
    if meta.exists():
        shutil.rmtree(meta, ignore_errors=True)
    # -Xss: trace specs fold long recorded logs with recursive operators (deep Java recursion in TLC)
    jopts = [f"-Xmx{heap}", "-XX:+UseParallelGC", "-Xss256m"]
    if dfs:
        jopts.append("-Dtlc2.tool.queue.IStateQueue=StateDeque")
    cmd = ["java", *jopts, "-cp", JAR_CP, "tlc2.TLC", "-workers", str(workers), "-metadir", str(meta),
           "-noGenerateSpecTE", "-config", str(cfg)]
    if simulate is not None:
        cmd += ["-simulate", simulate]
    if depth is not None:
        cmd += ["-depth", str(depth)]
    if seed is not None:
        cmd += ["-seed", str(seed)]
    if dump_dot is not None:
        cmd += ["-dump", "dot,actionlabels", str(dump_dot)]
    if coverage:
        cmd += ["-coverage", "1"]
    if extra:
        cmd += list(extra)
    cmd.append(str(module))
    e = dict(os.environ)
    e.pop("JAVA_TOOL_OPTIONS", None)
    if env:
        e.update({k: str(v) for k, v in env.items()})
    t0 = time.time()
    timed_out = False
    try:
        p = subprocess.run(cmd, cwd=str(module.parent), env=e, capture_output=True, text=True,
                           timeout=timeout)
        out = p.stdout + ("\n" + p.stderr if p.stderr else "")
        rc = p.returncode
    except subprocess.TimeoutExpired as ex:
        timed_out = True
        out = (ex.stdout or b"").decode() if isinstance(ex.stdout, bytes) else (ex.stdout or "")
        rc = -9
        subprocess.run(["pkill", "-f", str(meta)], check=False)
    wall = time.time() - t0
    (wd / "tlc.out").write_text(out)
    if not keep_meta:
        shutil.rmtree(meta, ignore_errors=True)
    res = parse_output(out)
    res.wall = wall
    res.cmd = " ".join(cmd)
    res.timed_out = timed_out
    if timed_out and simulate is None:
        raise TLCFailure(f"TLC timed out after {timeout}s: {label}")
    if timed_out:
        res.ok = res.violated is None
        return res
    if res.violated is None and "Model checking completed. No error has been found." not in out \
            and "Finished in" not in out:
        raise TLCFailure(f"TLC gave no verdict (rc={rc}) for {label}; see {wd/'tlc.out'}\n" + out[-2000:])
    if res.violated is None and re.search(r"^Error: ", out, re.M):
        m = re.search(r"^Error: (.*)$", out, re.M)
        raise TLCFailure(f"TLC error for {label}: {m.group(1)}\n" + out[-3000:])
    return res


def parse_output(out: str) -> TLCResult:
    res = TLCResult(ok=True, stdout=out)
    m = None
    for m in _STATS.finditer(out):
        pass
    if m:
        res.generated, res.distinct = int(m.group(1)), int(m.group(2))
    m = _DEPTH.search(out)
    if m:
        res.depth = int(m.group(1))
    m = re.search(r"Error: Invariant (\S+) is violated", out)
    if m:
        res.violated = m.group(1)
    elif re.search(r"Error: Action property (\S+) is violated", out):
        res.violated = re.search(r"Error: Action property (\S+) is violated", out).group(1)
    elif "Error: Temporal properties were violated" in out or \
            re.search(r"Error: Temporal property \S+ was violated", out):
        res.violated = "temporal"
    elif "Error: Deadlock reached" in out:
        res.violated = "deadlock"
    elif re.search(r"Error: The first argument of Assert evaluated to FALSE", out) or \
            "Assert" in out and "Error: The following" in out:
        res.violated = "assert"
    elif re.search(r"Error: The postcondition .* is violated|Error: Evaluating the postcondition|"
                   r"POSTCONDITION.*(FALSE|violated)", out):
        res.violated = "postcondition"
    res.ok = res.violated is None
    # error trace
    lines = out.splitlines()
    i = 0
    while i < len(lines):
        mh = _STATE_HDR.match(lines[i])
        if mh:
            label = mh.group(2)
            j = i + 1
            buf = []
            while j < len(lines) and lines[j].strip() != "" and not _STATE_HDR.match(lines[j]):
                buf.append(lines[j])
                j += 1
            try:
                st = tlaval.parse_state("\n".join(buf))
            except Exception:
                st = {"_raw": "\n".join(buf)}
            act = label.split(" line ")[0]
            res.trace.append((act, st))
            i = j
        else:
            i += 1
    # PrintT lines: TLC prints values on their own lines; collect parseable tuples starting with <<
    for ln in lines:
        s = ln.strip()
        if s.startswith("<<") and s.endswith(">>"):
            res.printed_raw.append(s)
            try:
                res.printed.append(tlaval.parse_value(s))
            except Exception:
                pass
    for ln in lines:
        mc = _COV.match(ln.strip())
        if mc:
            res.coverage[mc.group(1)] = (int(mc.group(3)), int(mc.group(4)))
    return res


# ---------------------------------------------------------------------------
# state-graph dumps

_NODE = re.compile(r'^(-?\d+) \[label="(.*?)"(?:,style = filled)?(?:,tooltip=".*")?\]\s*;?\s*$')
_EDGE = re.compile(r'^(-?\d+) -> (-?\d+) \[label="(.*?)",color')


def _unesc(s: str) -> str:
    return s.replace("\\\\", "\x00").replace("\\n", "\n").replace('\\"', '"').replace("\x00", "\\")


@dataclass
class Graph:
    nodes: dict      # id -> state dict
    edges: dict      # id -> list[(label, dst)]
    inits: list

    def n_edges(self):
        return sum(len(v) for v in self.edges.values())


def parse_dot(path: Path) -> Graph:
    nodes, edges, inits = {}, {}, []
    with open(path) as f:
        for ln in f:
            ln = ln.rstrip("\n")
            me = _EDGE.match(ln)
            if me:
                a, b, lab = int(me.group(1)), int(me.group(2)), _unesc(me.group(3))
                edges.setdefault(a, []).append((lab, b))
                continue
            mn = _NODE.match(ln)
            if mn:
                nid = int(mn.group(1))
                if nid not in nodes:
                    nodes[nid] = tlaval.parse_state(_unesc(mn.group(2)))
                if "style = filled" in ln:
                    inits.append(nid)
    return Graph(nodes, edges, inits)


def parse_action(label: str):
    """'Enq("u", 3)' -> ('Enq', ('u', 3));  'Deq' -> ('Deq', ())"""
    m = re.match(r"^(\w+)(?:\((.*)\))?$", label.strip(), re.S)
    if not m:
        return label, ()
    name, args = m.group(1), m.group(2)
    if args is None or args.strip() == "":
        return name, ()
    return name, tlaval.parse_value("<<" + args + ">>")


def edge_tour(g: Graph, *, max_paths: int | None = None, rng=None, max_len: int | None = None):
    """Yield root paths [(label, dst_id), ...] (each starting at an init state) that together
    cover every edge of g: DFS from each init; a path is emitted whenever the DFS cannot extend
    through an uncovered edge.  Each emitted path = BFS-shortest prefix to the first uncovered
    edge's source + a greedy walk through uncovered edges."""
    from collections import deque
    # BFS tree for shortest prefixes
    parent = {}
    dq = deque()
    for i in g.inits:
        parent[i] = None
        dq.append(i)
    order = []
    while dq:
        u = dq.popleft()
        order.append(u)
        for lab, v in g.edges.get(u, ()):
            if v not in parent:
                parent[v] = (u, lab)
                dq.append(v)

    def prefix(u):
        p = []
        while parent[u] is not None:
            pu, lab = parent[u]
            p.append((lab, u))
            u = pu
        p.reverse()
        return u, p

    covered = set()
    emitted = 0
    for u in order:
        outs = g.edges.get(u, ())
        for k in range(len(outs)):
            if (u, k) in covered:
                continue
            root, p = prefix(u)
            cur = u
            kk = k
            while True:
                covered.add((cur, kk))
                lab, v = g.edges[cur][kk]
                p.append((lab, v))
                if max_len is not None and len(p) >= max_len:
                    break
                cur = v
                nxt = [j for j in range(len(g.edges.get(cur, ()))) if (cur, j) not in covered]
                if not nxt:
                    break
                kk = nxt[0] if rng is None else rng.choice(nxt)
            yield root, p
            emitted += 1
            if max_paths is not None and emitted >= max_paths:
                return


def parse_dump(path: Path, must_contain: str | None = None, limit: int | None = None):
    """Yield state dicts from a plain `-dump` file (optionally only those containing a substring)."""
    buf = []
    n = 0

    def flush():
        nonlocal n
        if not buf:
            return None
        text = "\n".join(buf)
        if must_contain is not None and must_contain not in text:
            return None
        n += 1
        return tlaval.parse_state(text)

    with open(path) as f:
        for ln in f:
            if ln.startswith("State ") and ln.rstrip().endswith(":"):
                st = flush()
                buf = []
                if st is not None:
                    yield st
                    if limit is not None and n >= limit:
                        return
            else:
                if ln.strip():
                    buf.append(ln.rstrip("\n"))
    st = flush()
    if st is not None:
        yield st


def validate_traces(module: Path, traces: list, *, label: str, timeout: int = 1800,
                    spec: str = "Spec", chunk: int = 4000, extra_env: dict | None = None,
                    constants: dict | None = None):
    """Batch trace validation: write traces as JSON, run a total trace spec with -workers 1,
    collect <<"V", id, verdict, pos>> lines.  Returns ({id: (verdict, pos)}, [TLCResult])."""
    import json
    verdicts = {}
    results = []
    wd = WORK / label
    wd.mkdir(parents=True, exist_ok=True)
    cfg = write_cfg(wd / "trace.cfg", spec=spec, constants=constants)
    for k in range(0, len(traces), chunk):
        part = traces[k:k + chunk]
        f = wd / f"traces_{k}.json"
        f.write_text(json.dumps(part, separators=(",", ":")))
        env = {"TRACE_FILE": str(f)}
        if extra_env:
            env.update(extra_env)
        res = run(module, cfg, label=label, workers=1, timeout=timeout, env=env)
        results.append(res)
        for v in res.printed:
            if isinstance(v, tuple) and len(v) >= 4 and v[0] == "V":
                verdicts[v[1]] = (v[2], v[3])
        missing = [t["id"] for t in part if t["id"] not in verdicts]
        if missing:
            raise TLCFailure(f"trace validation {label}: no verdict for {len(missing)} traces "
                             f"(first {missing[:3]}); see {wd/'tlc.out'}")
        f.unlink()
    return verdicts, results
