"""known_findings.json helper (atomic read-modify-write, safe for concurrent builders).

usage: python -m harness.kf add-open  C14 <key> <deviation> "<site>" "<what fails / history>"
       python -m harness.kf list
Entries are only ever added by a human/builder decision, never by a check at run time."""
import fcntl
import json
import sys
from pathlib import Path

P = Path(__file__).resolve().parent.parent / "known_findings.json"


def add_open(prop, key, deviation, site, history):
    with open(str(P) + ".lock", "w") as lk:
        fcntl.flock(lk, fcntl.LOCK_EX)
        k = json.loads(P.read_text())
        k["open"] = [e for e in k["open"] if not (e["property"] == prop and e["key"] == key)]
        k["open"].append({"property": prop, "key": key, "deviation": deviation, "site": site, "history": history})
        P.write_text(json.dumps(k, indent=1) + "\n")


if __name__ == "__main__":
    if sys.argv[1] == "add-open":
        add_open(*sys.argv[2:7])
    else:
        print(P.read_text())
