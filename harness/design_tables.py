"""Rewrites the generated tables of DESIGN.md (between <!-- X:BEGIN --> / <!-- X:END --> markers)
from known_findings.json, checks.d/ and seeded/*/meta.json."""
import json
import re
import subprocess
from pathlib import Path

VERIF = Path(__file__).resolve().parent.parent


def block(text, name, body):
    pat = re.compile(rf"(<!-- {name}:BEGIN -->\n).*?(<!-- {name}:END -->)", re.S)
    assert pat.search(text), name
    return pat.sub(lambda m: m.group(1) + body + "\n" + m.group(2), text)


def main():
    k = json.loads((VERIF / "known_findings.json").read_text())
    subj = {}
    for l in subprocess.run("git -C /repo log --format='%h %s' -80", shell=True, capture_output=True,
                            text=True).stdout.splitlines():
        h, _, s = l.partition(" ")
        subj[h] = s
    by = {}
    for e in k["fixed"]:
        by.setdefault(e["commit"], []).append(e)
    rows = ["| commit | properties / finding keys | what the commit repairs |", "|---|---|---|"]
    order = [h for h in reversed(list(subj)) if h in by] + [h for h in by if h not in subj]
    for h in order:
        keys = "; ".join(f"{e['property']} {e['key']}" for e in by[h])
        rows.append(f"| {h} | {keys} | {subj.get(h, '')} |")
    fixes = "\n".join(rows)
    rows = ["| property | key | site | what fails |", "|---|---|---|---|"]
    for e in sorted(k["open"], key=lambda e: (e["property"], e["key"])):
        rows.append(f"| {e['property']} | {e['key']} | {e.get('site', '')[:110]} | {e.get('history', '')[:220]} |")
    opens = "\n".join(rows)
    rows = ["| property | spec modules (specs/) | technique | report |", "|---|---|---|---|"]
    for f in sorted((VERIF / "checks.d").glob("C*.json")):
        c = json.loads(f.read_text())
        mods = ", ".join(sorted(p.stem for p in (VERIF / c.get("engine_path", "specs/" + c["engine"])).glob("*.tla")))
        rep = f"reports/{c['property_id']}.md" if (VERIF / "reports" / f"{c['property_id']}.md").exists() else "section 9"
        rows.append(f"| {c['property_id']} | {c['engine']}: {mods[:160]} | {c['technique'][:200]} | {rep} |")
    checks = "\n".join(rows)
    rows = ["| id | property | caught by | violation keys |", "|---|---|---|---|"]
    for m in sorted((VERIF / "seeded").glob("*/meta.json")):
        d = json.loads(m.read_text())
        keys = sorted({l.strip()[5:].strip().split(":")[0] for r in d.get("checks", {}).values()
                       for l in r.get("lines", []) if l.strip().startswith("what:")})
        caught = ', '.join(d.get('caught_by', []))
        if not caught and (d.get('recheck_after_strengthening') or {}).get('caught_by_scenarios'):
            caught = d['property'] + ' (scenario library, see meta.json)'
        rows.append(f"| {d['id']} | {d['property']} | {caught or 'MISSED'} | {'; '.join(keys)[:100]} |")
    seeds = "\n".join(rows)
    p = VERIF / "DESIGN.md"
    t = p.read_text()
    t = block(t, "FIXES", fixes)
    t = block(t, "OPEN", opens)
    t = block(t, "CHECKS", checks)
    t = block(t, "SEEDS", seeds)
    p.write_text(t)
    print("DESIGN.md tables regenerated")


if __name__ == "__main__":
    main()
