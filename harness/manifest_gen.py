"""Regenerates MANIFEST.json from checks.d/Cxx.json (one file per claimed property) and
not_applicable.json (reasons for unclaimed ones).  Keeps the manifest valid at all times."""
import json
from pathlib import Path

VERIF = Path(__file__).resolve().parent.parent
ALL = [f"C{n:02d}" for n in range(1, 21)]
DEFAULT_NA = "check not built yet (planned, see DESIGN.md section 6 build order)"


def main():
    checks, engines = [], {}
    ready = set(json.loads((VERIF / "ready.json").read_text()))
    for f in sorted((VERIF / "checks.d").glob("C*.json")):
        c = json.loads(f.read_text())
        pid = c["property_id"]
        if pid not in ready:
            continue
        checks.append({
            "property_id": pid,
            "quick_cmd": f"./vcheck {pid} --tier quick",
            "thorough_cmd": f"./vcheck {pid} --tier thorough",
            "evidence_file": f"/verif/evidence/{pid}.json",
            "replay_cmd_template": f"./vcheck {pid} --replay {{path}}",
            "engine": c["engine"],
            "level_claimed": {"category": c.get("category", "model_checking"), "text": c["text"],
                              "design_ref": c.get("design_ref", "5/" + pid)},
            "level_note": c["note"],
            "technique": c["technique"],
        })
        e = engines.setdefault(c["engine"], {"name": c["engine"], "path": c.get("engine_path", "specs/" + c["engine"]),
                                             "serves_properties": [], "kind_free_text": c.get("engine_kind", "TLA+ specs checked with TLC + Python conformance harness")})
        e["serves_properties"].append(pid)
    claimed = {c["property_id"] for c in checks}
    na_file = VERIF / "not_applicable.json"
    reasons = json.loads(na_file.read_text()) if na_file.exists() else {}
    na = [{"property_id": p, "reason": reasons.get(p, DEFAULT_NA)} for p in ALL if p not in claimed]
    hooks = json.loads((VERIF / "hooks.json").read_text()) if (VERIF / "hooks.json").exists() else {}
    m = {
        "version": 1,
        "setup_cmd": "./setup.sh",
        "hooks": {
            "guard": "HAPPYSIM_VERIF",
            "enable": hooks.get("enable", "no source hooks: ./vcheck sets HAPPYSIM_VERIF=1 and installs class-level wrappers "
                      "(harness/probe.py) inside its own process; /repo is imported from its working tree"),
            "baseline_off_cmd": "cd /repo && /venv/bin/python -m pytest -ra -q -p no:cacheprovider --timeout=900 "
                                "--continue-on-collection-errors",
            "source_commits": hooks.get("source_commits", []),
            "add_only": True,
        },
        "engines": list(engines.values()),
        "checks": checks,
        "not_applicable": na,
        "notes": "All checks: TLC model checking of an implementation-shaped TLA+ spec + two-way conformance "
                 "(spec behaviours replayed into the real code; real traces validated by TLC). See DESIGN.md.",
    }
    (VERIF / "MANIFEST.json").write_text(json.dumps(m, indent=1) + "\n")
    try:
        import jsonschema
    except ImportError:
        print("MANIFEST.json written (jsonschema not available for validation)"); return
    jsonschema.validate(m, json.loads(Path("/root/.vp/MANIFEST.schema.json").read_text()))
    print(f"MANIFEST.json: {len(checks)} checks, {len(na)} not_applicable")


if __name__ == "__main__":
    main()
