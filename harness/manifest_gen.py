"""Regenerates MANIFEST.json from the table below (keeps it valid at all times)."""
import json
import sys
from pathlib import Path

VERIF = Path(__file__).resolve().parent.parent

CHECKS = {
    # id: (engine, technique, level text, level note, design_ref)
    "C01": ("engine",
            "TLA+ model of the event loop (Engine.tla) model-checked with TLC; all programs of the bounded "
            "model replayed on the real engine; recorded engine traces validated by TLC (EngineTrace.tla)",
            "TLC exhaustively checks the C01 contract on the implementation-shaped engine model (all programs "
            "with <=4-5 events, 3 ticks, handler fan-out 2, cancels, daemons, past emissions, end_time on/off); "
            "every program of the bounded model is executed on the real Simulation and its delivery order "
            "compared with the model; thousands of recorded executions (model programs and random larger ones, "
            "all handler return forms, fast and instrumented loop) are validated record by record by TLC against "
            "the contract.",
            "Trusted: harness-side probe (class-level wrappers on Event/EventHeap), TLC, the time-rank abstraction. "
            "Exhaustive only within the stated bounds; larger programs are sampled.",
            "5/C01"),
}

ALL = [f"C{n:02d}" for n in range(1, 21)]


def main():
    checks = []
    for pid, (engine, tech, text, note, ref) in CHECKS.items():
        checks.append({
            "property_id": pid,
            "quick_cmd": f"./vcheck {pid} --tier quick",
            "thorough_cmd": f"./vcheck {pid} --tier thorough",
            "evidence_file": f"/verif/evidence/{pid}.json",
            "replay_cmd_template": f"./vcheck {pid} --replay {{path}}",
            "engine": engine,
            "level_claimed": {"category": "model_checking", "text": text, "design_ref": ref},
            "level_note": note,
            "technique": tech,
        })
    na = [{"property_id": p, "reason": "check not built yet in this round (planned, see DESIGN.md section 6 build order)"}
          for p in ALL if p not in CHECKS]
    hooks = json.loads((VERIF / "hooks.json").read_text()) if (VERIF / "hooks.json").exists() else {}
    m = {
        "version": 1,
        "setup_cmd": "./setup.sh",
        "hooks": {
            "guard": "HAPPYSIM_VERIF",
            "enable": "no source hooks: ./vcheck sets HAPPYSIM_VERIF=1 and installs class-level wrappers "
                      "(harness/probe.py) inside its own process; /repo is imported from its working tree",
            "baseline_off_cmd": "cd /repo && /venv/bin/python -m pytest -ra -q -p no:cacheprovider --timeout=900 "
                                "--continue-on-collection-errors",
            "source_commits": hooks.get("source_commits", []),
            "add_only": True,
        },
        "engines": [
            {"name": "engine", "path": "specs/engine", "serves_properties": ["C01"],
             "kind_free_text": "TLA+ specs (Engine, EngineContract, EngineTrace) checked with TLC + Python harness"},
        ],
        "checks": checks,
        "not_applicable": na,
        "notes": "All checks: TLC model checking of an implementation-shaped TLA+ spec + two-way conformance "
                 "(spec behaviours replayed into the real code; real traces validated by TLC). See DESIGN.md.",
    }
    (VERIF / "MANIFEST.json").write_text(json.dumps(m, indent=1) + "\n")


if __name__ == "__main__":
    main()
