"""Coordinator tool: apply prepared repair patches (reports/fixes/<PID>_<key>.diff + .msg) to the repo.

usage: python -m harness.apply_fixes [--no-test] <PID_key> [<PID_key> ...]

1. creates a scratch worktree of /repo HEAD, applies each diff and commits it there with its message
   (one commit per defect, message must start with "fix:");
2. runs the repository's full test suite in the worktree (unless --no-test);
3. on success fast-forwards /repo's branch to the new commits and moves the matching open entries of
   known_findings.json to "fixed" (with the commit hash).  On failure nothing is changed.
"""
from __future__ import annotations

import json
import subprocess
import sys
from pathlib import Path

VERIF = Path(__file__).resolve().parent.parent
FIX = VERIF / "reports" / "fixes"
WT = "/tmp/wt_applyfix"


def sh(cmd, **kw):
    return subprocess.run(cmd, shell=True, text=True, capture_output=True, **kw)


def main():
    args = sys.argv[1:]
    test = "--no-test" not in args
    names = [a for a in args if not a.startswith("--")]
    sh(f"git -C /repo worktree remove --force {WT}")
    r = sh(f"git -C /repo worktree add --detach {WT} HEAD")
    if r.returncode:
        print(r.stderr)
        return 2
    commits = {}
    try:
        for n in names:
            diff, msg = FIX / f"{n}.diff", FIX / f"{n}.msg"
            m = msg.read_text().strip()
            assert m.startswith("fix:"), f"{n}: message must start with fix:"
            r = sh(f"git -C {WT} apply --index {diff}")
            if r.returncode:
                print(f"APPLY FAILED {n}\n{r.stderr}")
                return 1
            r = subprocess.run(["git", "-C", WT, "commit", "-q", "-m", m], text=True, capture_output=True)
            if r.returncode:
                print(f"COMMIT FAILED {n}\n{r.stdout}{r.stderr}")
                return 1
            commits[n] = sh(f"git -C {WT} log --format=%h -1").stdout.strip()
            print(f"applied {n} -> {commits[n]}")
        if test:
            print("running full suite ...", flush=True)
            r = sh(f"cd {WT} && /venv/bin/python -m pytest -q -p no:cacheprovider --timeout=900 "
                   f"--continue-on-collection-errors -p no:warnings > /tmp/applyfix_suite.txt 2>&1")
            print(sh("tail -5 /tmp/applyfix_suite.txt").stdout)
            if r.returncode != 0:
                print(f"SUITE FAILED (rc={r.returncode}): nothing applied to /repo; see /tmp/applyfix_suite.txt")
                return 1
        head = sh(f"git -C {WT} rev-parse HEAD").stdout.strip()
        r = sh(f"git -C /repo merge --ff-only {head}")
        if r.returncode:
            print("FF MERGE FAILED", r.stderr)
            return 1
        k = json.loads((VERIF / "known_findings.json").read_text())
        for n, h in commits.items():
            pid, _, key = n.partition("_")
            keys_file = FIX / f"{n}.keys"
            keys = keys_file.read_text().split() if keys_file.exists() else [key]
            for key in keys:
                ent = [e for e in k["open"] if e["property"] == pid and e["key"] == key]
                k["open"] = [e for e in k["open"] if not (e["property"] == pid and e["key"] == key)]
                for e in ent:
                    k["fixed"].append({"property": pid, "commit": h, "key": key, "deviation": e.get("deviation"),
                                       "entry": f"fixed: property={pid} {h} {e.get('history', '')[:300]}",
                                       "site": e.get("site")})
                if not ent:
                    print(f"note: no open entry {pid}/{key}")
        (VERIF / "known_findings.json").write_text(json.dumps(k, indent=1) + "\n")
        print("done; /repo HEAD =", head[:8])
        return 0
    finally:
        sh(f"git -C /repo worktree remove --force {WT}")


if __name__ == "__main__":
    sys.exit(main())
