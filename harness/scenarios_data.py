"""C07 scenario corpus, data-plane families: storage, datastore, streaming, messaging, network,
replication, consensus, crdt, sync.

Every function builds a small model from real library components (fixed seeds), runs it inside one or
more real Simulations and returns a small JSON-able summary.  The engine-level monitor
(harness/simrec.py) watches the simulations; nothing here judges anything.

Parameter choices are deliberately hostile: non-zero latencies everywhere, durations whose nanosecond
conversion truncates (0.1*3, 1/3, 1.001, 0.7), 1 ns latencies / offsets, timeouts shorter and longer
than the guarded operation, same-instant bursts, operations exactly at period boundaries, end_time both
finite and absent.

Driver entities defined here (`_Proc`) only exist to call the generator APIs of passive components
(`yield from store.get(...)`) and to inject requests; whenever a component has an event interface the
requests are delivered to the component itself so that the monitor attributes emissions to it.
"""
from __future__ import annotations

import random

from happysimulator import Entity, Event, Instant, Simulation, Sink, Source
from happysimulator.core.sim_future import SimFuture
from happysimulator.distributions import ConstantLatency, ExponentialLatency
from happysimulator.load.source import SimpleEventProvider

# float-hostile durations (seconds): int(x * 1e9) truncates for all of them
H3 = 0.1 * 3            # 0.30000000000000004 -> 300000000 ns, but 3 * int(0.1e9) etc. differ
THIRD = 1 / 3           # 333333333.33 ns
ONE001 = 1.001          # 1000999999.9999999 ns -> 1000999999
P7 = 0.7                # 700000000 - eps on multiplication chains
NS = 1e-9               # one nanosecond
HOSTILE = (H3, THIRD, ONE001, P7, NS, 0.1 + 0.2, 2 / 3, 1e-9 * 3, 0.07 * 10)


def _seed(s):
    random.seed(s)
    try:
        import numpy as np
        np.random.seed(s)
    except Exception:
        pass


def _t(x):
    return x if isinstance(x, Instant) else Instant.from_seconds(x)


class _Proc(Entity):
    """Driver: runs `body(self, event)` (plain function or generator function) for every delivery."""

    def __init__(self, name, body=None):
        super().__init__(name)
        self.body = body
        self.log = []
        self.errors = []

    def handle_event(self, event):
        b = event.context.get("body") or self.body
        if b is None:
            return None
        return b(self, event)


def _ev(t, target, typ="go", daemon=False, **ctx):
    return Event(time=_t(t), event_type=typ, target=target, daemon=daemon, context=dict(ctx))


def _msg(t, net, src, dst, typ, daemon=False, **payload):
    """An event routed through `net` from src to dst (same shape as Network.send)."""
    e = Event(time=_t(t), event_type=typ, target=net, daemon=daemon)
    md = e.context["metadata"]
    md["source"] = src.name
    md["destination"] = dst.name
    md.update(payload)
    return e


def _run(entities, events=(), end=None, sources=None, start=None, poke=()):
    """Build and run one Simulation.  `poke`: passive entities that get one no-op delivery so that
    they show up as exercised inside a simulation."""
    sim = Simulation(start_time=start, end_time=None if end is None else _t(end),
                     sources=list(sources or []), entities=list(entities))
    for e in events:
        sim.schedule(e)
    t0 = start if start is not None else Instant.Epoch
    for p in poke:
        sim.schedule(Event(time=t0, event_type="verif_noop", target=p))
    sim.run()
    return sim


def _link(name, lat, **kw):
    from happysimulator.components.network.link import NetworkLink
    return NetworkLink(name=name, latency=lat if hasattr(lat, "get_latency") else ConstantLatency(lat), **kw)


def _mesh(net, nodes, lat=0.01, **kw):
    for i, a in enumerate(nodes):
        for b in nodes[i + 1:]:
            net.add_bidirectional_link(a, b, _link(f"l_{a.name}_{b.name}", lat, **kw))


def _star(net, hub, leaves, lat=0.01, **kw):
    for b in leaves:
        net.add_bidirectional_link(hub, b, _link(f"l_{hub.name}_{b.name}", lat, **kw))


def _src(rate, target, typ, ctx_fn, stop_after, name="src", poisson=False):
    prov = SimpleEventProvider(target, typ, _t(stop_after), context_fn=ctx_fn)
    f = Source.poisson if poisson else Source.constant
    return f(rate=rate, name=name, event_provider=prov)


# =====================================================================================================
# sync
# =====================================================================================================

def _workers(n, body):
    return [_Proc(f"w{i}", body) for i in range(n)]


def data_sync_mutex_hostile():
    """Five workers, same-instant burst plus 1 ns stragglers, hostile hold times, no end_time."""
    from happysimulator.components.sync.mutex import Mutex
    _seed(1)
    m = Mutex("m")
    done = []

    def body(w, ev):
        hold = ev.context["hold"]
        yield from m.acquire(w.name)
        yield hold
        r = m.release()
        done.append((w.name, w.now.nanoseconds))
        if r:
            yield 0.0, r
        # immediately try again without waiting (try_acquire path)
        if m.try_acquire(w.name):
            yield NS
            m.release()
    ws = _workers(5, body)
    evs = [_ev(0.0, w, hold=HOSTILE[i]) for i, w in enumerate(ws)]
    evs += [_ev(NS, w, hold=HOSTILE[i + 4]) for i, w in enumerate(ws)]
    evs += [_ev(H3, ws[0], hold=THIRD), _ev(H3, ws[1], hold=NS)]
    _run([m, *ws], evs, poke=[m])
    return {"done": len(done), "contentions": m.stats.contentions}


def data_sync_semaphore_multi():
    """Semaphore(3), acquire counts 1..3, burst arrivals at one instant, finite and absent end_time."""
    from happysimulator.components.sync.semaphore import Semaphore
    out = {}
    for end in (None, 2.0):
        _seed(2)
        s = Semaphore("s", 3)
        done = []

        def body(w, ev, s=s, done=done):
            k = ev.context["k"]
            yield from s.acquire(k)
            yield ev.context["hold"]
            r = s.release(k)
            done.append(w.name)
            if r:
                yield 0.0, r
        ws = _workers(6, body)
        evs = [_ev(0.0, w, k=1 + i % 3, hold=HOSTILE[i]) for i, w in enumerate(ws)]
        evs += [_ev(THIRD, w, k=3 - i % 3, hold=THIRD) for i, w in enumerate(ws)]
        _run([s, *ws], evs, end=end, poke=[s])
        out[str(end)] = len(done)
    return out


def data_sync_rwlock_mixed():
    """Readers and writers interleaved, max_readers=2, writers arriving while readers hold."""
    from happysimulator.components.sync.rwlock import RWLock
    _seed(3)
    rw = RWLock("rw", max_readers=2)
    done = []

    def reader(w, ev):
        yield from rw.acquire_read()
        yield ev.context["hold"]
        r = rw.release_read()
        done.append(("r", w.name, w.now.nanoseconds))
        if r:
            yield 0.0, r

    def writer(w, ev):
        yield from rw.acquire_write()
        yield ev.context["hold"]
        r = rw.release_write()
        done.append(("w", w.name, w.now.nanoseconds))
        if r:
            yield 0.0, r
    ws = _workers(8, None)
    evs = []
    for i, w in enumerate(ws):
        evs.append(_ev(0.0, w, body=(writer if i % 3 == 0 else reader), hold=HOSTILE[i]))
        evs.append(_ev(H3, w, body=(reader if i % 3 == 0 else writer), hold=HOSTILE[(i + 3) % 9]))
        evs.append(_ev(H3 + NS, w, body=reader, hold=NS))
    _run([rw, *ws], evs, poke=[rw])
    unl = RWLock("rw2")
    ws2 = _workers(4, None)
    evs = [_ev(0.5, w, body=(reader if i else writer), hold=ONE001) for i, w in enumerate(ws2)]

    def reader2(w, ev):
        yield from unl.acquire_read()
        yield ev.context["hold"]
        unl.release_read()

    def writer2(w, ev):
        yield from unl.acquire_write()
        yield ev.context["hold"]
        unl.release_write()
    evs = [_ev(0.5, w, body=(reader2 if i else writer2), hold=ONE001) for i, w in enumerate(ws2)]
    _run([unl, *ws2], evs, end=10.0, poke=[unl])
    return {"done": len(done)}


def data_sync_barrier_generations():
    """Barrier(3): two generations, arrivals 1 ns apart, then a reset() with a parked party."""
    from happysimulator.components.sync.barrier import Barrier
    _seed(4)
    b = Barrier("b", 3)
    idx = []

    def body(w, ev):
        i = yield from b.wait()
        idx.append((w.name, i, w.now.nanoseconds))
        yield ev.context.get("after", NS)

    def resetter(w, ev):
        b.reset()
        return None
    ws = _workers(7, body)
    evs = [_ev(0.0, ws[0]), _ev(NS, ws[1]), _ev(THIRD, ws[2], after=H3),
           _ev(THIRD, ws[3]), _ev(THIRD, ws[4]), _ev(THIRD, ws[5]),
           _ev(ONE001, ws[6]), _ev(2.0, ws[0], body=resetter)]
    _run([b, *ws], evs, poke=[b])
    return {"released": len(idx), "gen": b.generation}


def data_sync_condition_wait_for():
    """Condition.wait_for with timeouts shorter and longer than the producer's delay; notify/notify_all."""
    from happysimulator.components.sync.condition import Condition
    from happysimulator.components.sync.mutex import Mutex
    _seed(5)
    lock = Mutex("cl")
    cond = Condition("c", lock)
    items = []
    got = []

    def consumer(w, ev):
        yield from lock.acquire(w.name)
        ok = yield from cond.wait_for(lambda: bool(items), timeout=ev.context["timeout"])
        if ok:
            got.append((w.name, items.pop(0), w.now.nanoseconds))
        else:
            got.append((w.name, None, w.now.nanoseconds))
        r = lock.release()
        if r:
            yield 0.0, r

    def producer(w, ev):
        yield ev.context["delay"]
        yield from lock.acquire(w.name)
        items.append(w.now.nanoseconds)
        evs = cond.notify(1) if ev.context.get("one") else cond.notify_all()
        yield THIRD            # keep the mutex for a while after notifying
        r = lock.release()
        yield 0.0, (evs or []) + (r or [])
    cs = _workers(4, consumer)
    ps = [_Proc(f"p{i}", producer) for i in range(4)]
    evs = [_ev(0.0, c, timeout=(NS, H3, ONE001, None)[i]) for i, c in enumerate(cs)]
    evs += [_ev(0.0, p, delay=(H3, P7, ONE001, 2.0)[i], one=(i % 2 == 0)) for i, p in enumerate(ps)]
    _run([lock, cond, *cs, *ps], evs, end=30.0, poke=[lock, cond])
    return {"got": len(got)}


# =====================================================================================================
# network
# =====================================================================================================

def data_net_link_source_sink():
    """source -> NetworkLink (truncating latency, bandwidth, jitter) -> sink, payload sizes, no end_time."""
    _seed(10)
    sink = Sink("sink")
    link = _link("lnk", H3, bandwidth_bps=8_000.0 / 3, jitter=ExponentialLatency(THIRD / 10), egress=sink)

    def ctx(t, n):
        return {"created_at": t, "metadata": {"payload_size": (n * 37) % 501}}
    src = _src(7.0, link, "pkt", ctx, 2.0)
    _run([link, sink], sources=[src])
    return {"n": sink.events_received, "sent": link.packets_sent}


def data_net_link_lossy_burst():
    """Same-instant burst through a lossy 1 ns link and through a zero-latency link; finite end_time."""
    _seed(11)
    sink = Sink("sink")
    lossy = _link("lossy", NS, packet_loss_rate=0.3, egress=sink)
    zero = _link("zero", 0.0, egress=sink)
    noeg = _link("noegress", ONE001)
    evs = [_ev(THIRD, lossy, "pkt") for _ in range(40)] + [_ev(THIRD, zero, "pkt") for _ in range(40)]
    evs += [_ev(THIRD, noeg, "pkt")]
    _run([lossy, zero, noeg, sink], evs, end=5.0)
    return {"n": sink.events_received, "dropped": lossy.packets_dropped}


def data_net_network_partition_heal():
    """client <-> server through Network; symmetric and asymmetric partitions created and healed exactly
    at message instants; unroutable and metadata-less events."""
    from happysimulator.components.network.network import Network
    _seed(12)
    net = Network(name="net")
    got = []

    def server(w, ev):
        got.append((w.name, ev.event_type, w.now.nanoseconds))
        if ev.event_type == "ping":
            src = ev.context["metadata"]["source"]
            yield H3 / 10
            return [net.send(w, peers[src], "pong", payload={"n": ev.context["metadata"].get("n")})]
        return None
    a, b, c = _Proc("a", server), _Proc("b", server), _Proc("c", server)
    peers = {"a": a, "b": b, "c": c}
    _mesh(net, [a, b], lat=THIRD / 10)
    net.add_link(a, c, _link("ac", P7 / 10))          # one-way only: c cannot answer a
    handles = {}

    def ctl(w, ev):
        op = ev.context["op"]
        if op == "part":
            handles["p"] = net.partition([a], [b])
        elif op == "apart":
            handles["q"] = net.partition([b], [a], asymmetric=True)
        elif op == "heal":
            handles.pop("p").heal()
        elif op == "healall":
            net.heal_partition()
        return None
    k = _Proc("ctl", ctl)
    evs = []
    for i in range(12):
        t = i * H3
        evs.append(_msg(t, net, a, b, "ping", n=i))
        evs.append(_msg(t, net, b, a, "ping", n=i))
        evs.append(_msg(t, net, a, c, "ping", n=i))
    evs += [_ev(3 * H3, k, op="part"), _ev(5 * H3, k, op="heal"), _ev(6 * H3, k, op="apart"),
            _ev(9 * H3, k, op="healall")]
    evs.append(Event(time=_t(0.5), event_type="nometa", target=net))
    _run([net, a, b, c, k], evs, end=None)
    return {"got": len(got), "routed": net.events_routed, "part": net.events_dropped_partition,
            "noroute": net.events_dropped_no_route}


def data_net_conditions_all():
    """Every predefined link profile as a route of one Network; a burst over each."""
    from happysimulator.components.network import conditions as C
    from happysimulator.components.network.network import Network
    _seed(13)
    net = Network(name="net")
    sink_log = []

    def rx(w, ev):
        sink_log.append((w.name, w.now.nanoseconds))
        return None
    hub = _Proc("hub", rx)
    mk = [C.local_network, C.datacenter_network, C.cross_region_network, C.internet_network,
          C.satellite_network, lambda name: C.lossy_network(0.25, name=name, base_latency=THIRD / 100),
          lambda name: C.slow_network(ONE001, name=name, bandwidth_bps=1e4 / 3),
          C.mobile_3g_network, C.mobile_4g_network]
    leaves = []
    for i, f in enumerate(mk):
        leaf = _Proc(f"n{i}", rx)
        leaves.append(leaf)
        net.add_bidirectional_link(hub, leaf, f(name=f"link{i}"))
    net.default_link = None
    evs = []
    for i, leaf in enumerate(leaves):
        for j in range(6):
            evs.append(_msg(0.1 * j, net, hub, leaf, "data", payload_size=100 + 400 * j))
            evs.append(_msg(0.1 * j, net, leaf, hub, "data", size=64))
    _run([net, hub, *leaves], evs)
    return {"rx": len(sink_log), "links": len(net.traffic_matrix())}


def data_net_default_link_pingpong():
    """Zero-latency and 1 ns default link: a bounded ping-pong chain stays at (almost) one instant."""
    from happysimulator.components.network.network import Network
    out = {}
    for lat in (0.0, NS, THIRD):
        _seed(14)
        net = Network(name="net", default_link=_link("dflt", lat))
        cnt = [0]

        def peer(w, ev, net=net, cnt=cnt):
            cnt[0] += 1
            n = ev.context["metadata"]["n"]
            if n <= 0:
                return None
            other = b if w is a else a
            e = net.send(w, other, "hop", payload={"n": n - 1})
            return [e]
        a, b = _Proc("a", peer), _Proc("b", peer)
        # default link has a single egress: route a->b and b->a explicitly with copies of it
        net.add_bidirectional_link(a, b, _link("ab", lat))
        _run([net, a, b], [_msg(0.25, net, a, b, "hop", n=300)], end=(None if lat else 1.0))
        out[str(lat)] = cnt[0]
    return out


SCENARIOS = {}


def _register(ns):
    for k, v in list(ns.items()):
        if k.startswith("data_") and callable(v):
            SCENARIOS[k] = v


_register(globals())
