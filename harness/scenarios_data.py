"""C07 scenario corpus, data-plane families: storage, datastore, streaming, messaging, network,
replication, consensus, crdt, sync.

Every function builds a small model from real library components (fixed seeds), runs it inside one or
more real Simulations and returns a small JSON-able summary.  The engine-level monitor
(harness/simrec.py) watches the simulations; nothing here judges anything.

Parameter choices are deliberately hostile: non-zero latencies everywhere, durations whose nanosecond
conversion truncates (0.1*3, 1/3, 1.001, 0.7), 1 ns latencies / offsets, timeouts shorter and longer
than the guarded operation, same-instant bursts, operations exactly at period boundaries, end_time both
finite and absent.

Driver entities defined here (`_Proc`) only exist to call the generator APIs of passive components
(`yield from store.get(...)`) and to inject requests; whenever a component has an event interface the
requests are delivered to the component itself so that the monitor attributes emissions to it.
"""
from __future__ import annotations

import random

from happysimulator import Entity, Event, Instant, Simulation, Sink, Source
from happysimulator.core.sim_future import SimFuture
from happysimulator.distributions import ConstantLatency, ExponentialLatency
from happysimulator.load.source import SimpleEventProvider

# float-hostile durations (seconds): int(x * 1e9) truncates for all of them
H3 = 0.1 * 3            # 0.30000000000000004 -> 300000000 ns, but 3 * int(0.1e9) etc. differ
THIRD = 1 / 3           # 333333333.33 ns
ONE001 = 1.001          # 1000999999.9999999 ns -> 1000999999
P7 = 0.7                # 700000000 - eps on multiplication chains
NS = 1e-9               # one nanosecond
HOSTILE = (H3, THIRD, ONE001, P7, NS, 0.1 + 0.2, 2 / 3, 1e-9 * 3, 0.07 * 10)


def _seed(s):
    random.seed(s)
    try:
        import numpy as np
        np.random.seed(s)
    except Exception:
        pass


def _t(x):
    return x if isinstance(x, Instant) else Instant.from_seconds(x)


class _Proc(Entity):
    """Driver: runs `body(self, event)` (plain function or generator function) for every delivery."""

    def __init__(self, name, body=None):
        super().__init__(name)
        self.body = body
        self.log = []
        self.errors = []

    def handle_event(self, event):
        b = event.context.get("body") or self.body
        if b is None:
            return None
        return b(self, event)


def _ev(t, target, typ="go", daemon=False, **ctx):
    return Event(time=_t(t), event_type=typ, target=target, daemon=daemon, context=dict(ctx))


def _msg(t, net, src, dst, typ, daemon=False, **payload):
    """An event routed through `net` from src to dst (same shape as Network.send)."""
    e = Event(time=_t(t), event_type=typ, target=net, daemon=daemon)
    md = e.context["metadata"]
    md["source"] = src.name
    md["destination"] = dst.name
    md.update(payload)
    return e


def _run(entities, events=(), end=None, sources=None, start=None, poke=(), starters=()):
    """Build and run one Simulation.  `poke`: passive entities that get one no-op delivery so that
    they show up as exercised inside a simulation.  `starters`: callables returning the bootstrap
    event(s) of a component (node.start, store.get_gossip_event, ...); they need the clock and are
    therefore called after the Simulation exists."""
    sim = Simulation(start_time=start, end_time=None if end is None else _t(end),
                     sources=list(sources or []), entities=list(entities))
    for e in events:
        sim.schedule(e)
    for f in starters:
        r = f()
        if r is None:
            continue
        for e in (r if isinstance(r, (list, tuple)) else [r]):
            sim.schedule(e)
    t0 = start if start is not None else Instant.Epoch
    for p in poke:
        sim.schedule(Event(time=t0, event_type="verif_noop", target=p))
    sim.run()
    return sim


def _link(name, lat, **kw):
    from happysimulator.components.network.link import NetworkLink
    return NetworkLink(name=name, latency=lat if hasattr(lat, "get_latency") else ConstantLatency(lat), **kw)


def _mesh(net, nodes, lat=0.01, **kw):
    for i, a in enumerate(nodes):
        for b in nodes[i + 1:]:
            net.add_bidirectional_link(a, b, _link(f"l_{a.name}_{b.name}", lat, **kw))


def _src(rate, target, typ, ctx_fn, stop_after, name="src", poisson=False):
    prov = SimpleEventProvider(target, typ, _t(stop_after), context_fn=ctx_fn)
    f = Source.poisson if poisson else Source.constant
    return f(rate=rate, name=name, event_provider=prov)


# =====================================================================================================
# sync
# =====================================================================================================

def _workers(n, body):
    return [_Proc(f"w{i}", body) for i in range(n)]


def data_sync_mutex_hostile():
    """Five workers, same-instant burst plus 1 ns stragglers, hostile hold times, no end_time."""
    from happysimulator.components.sync.mutex import Mutex
    _seed(1)
    m = Mutex("m")
    done = []

    def body(w, ev):
        hold = ev.context["hold"]
        yield from m.acquire(w.name)
        yield hold
        r = m.release()
        done.append((w.name, w.now.nanoseconds))
        if r:
            yield 0.0, r
        # immediately try again without waiting (try_acquire path)
        if m.try_acquire(w.name):
            yield NS
            m.release()
    ws = _workers(5, body)
    evs = [_ev(0.0, w, hold=HOSTILE[i]) for i, w in enumerate(ws)]
    evs += [_ev(NS, w, hold=HOSTILE[i + 4]) for i, w in enumerate(ws)]
    evs += [_ev(H3, ws[0], hold=THIRD), _ev(H3, ws[1], hold=NS)]
    _run([m, *ws], evs, poke=[m])
    return {"done": len(done), "contentions": m.stats.contentions}


def data_sync_semaphore_multi():
    """Semaphore(3), acquire counts 1..3, burst arrivals at one instant, finite and absent end_time."""
    from happysimulator.components.sync.semaphore import Semaphore
    out = {}
    for end in (None, 2.0):
        _seed(2)
        s = Semaphore("s", 3)
        done = []

        def body(w, ev, s=s, done=done):
            k = ev.context["k"]
            yield from s.acquire(k)
            yield ev.context["hold"]
            r = s.release(k)
            done.append(w.name)
            if r:
                yield 0.0, r
        ws = _workers(6, body)
        evs = [_ev(0.0, w, k=1 + i % 3, hold=HOSTILE[i]) for i, w in enumerate(ws)]
        evs += [_ev(THIRD, w, k=3 - i % 3, hold=THIRD) for i, w in enumerate(ws)]
        _run([s, *ws], evs, end=end, poke=[s])
        out[str(end)] = len(done)
    return out


def data_sync_rwlock_mixed():
    """Readers and writers interleaved, max_readers=2, writers arriving while readers hold."""
    from happysimulator.components.sync.rwlock import RWLock
    _seed(3)
    rw = RWLock("rw", max_readers=2)
    done = []

    def reader(w, ev):
        yield from rw.acquire_read()
        yield ev.context["hold"]
        r = rw.release_read()
        done.append(("r", w.name, w.now.nanoseconds))
        if r:
            yield 0.0, r

    def writer(w, ev):
        yield from rw.acquire_write()
        yield ev.context["hold"]
        r = rw.release_write()
        done.append(("w", w.name, w.now.nanoseconds))
        if r:
            yield 0.0, r
    ws = _workers(8, None)
    evs = []
    for i, w in enumerate(ws):
        evs.append(_ev(0.0, w, body=(writer if i % 3 == 0 else reader), hold=HOSTILE[i]))
        evs.append(_ev(H3, w, body=(reader if i % 3 == 0 else writer), hold=HOSTILE[(i + 3) % 9]))
        evs.append(_ev(H3 + NS, w, body=reader, hold=NS))
    _run([rw, *ws], evs, poke=[rw])
    unl = RWLock("rw2")                      # unlimited readers, finite end_time cutting the last holder
    ws2 = _workers(4, None)

    def reader2(w, ev):
        yield from unl.acquire_read()
        yield ev.context["hold"]
        unl.release_read()

    def writer2(w, ev):
        yield from unl.acquire_write()
        yield ev.context["hold"]
        unl.release_write()
    evs = [_ev(0.5, w, body=(reader2 if i else writer2), hold=ONE001) for i, w in enumerate(ws2)]
    _run([unl, *ws2], evs, end=10.0, poke=[unl])
    return {"done": len(done)}


def data_sync_barrier_generations():
    """Barrier(3): two generations, arrivals 1 ns apart, then a reset() with a parked party."""
    from happysimulator.components.sync.barrier import Barrier
    _seed(4)
    b = Barrier("b", 3)
    idx = []

    def body(w, ev):
        i = yield from b.wait()
        idx.append((w.name, i, w.now.nanoseconds))
        yield ev.context.get("after", NS)

    def resetter(w, ev):
        b.reset()
        return None
    ws = _workers(7, body)
    evs = [_ev(0.0, ws[0]), _ev(NS, ws[1]), _ev(THIRD, ws[2], after=H3),
           _ev(THIRD, ws[3]), _ev(THIRD, ws[4]), _ev(THIRD, ws[5]),
           _ev(ONE001, ws[6]), _ev(2.0, ws[0], body=resetter)]
    _run([b, *ws], evs, poke=[b])
    return {"released": len(idx), "gen": b.generation}


def data_sync_condition_wait_for():
    """Condition.wait_for with timeouts shorter and longer than the producer's delay; notify/notify_all."""
    from happysimulator.components.sync.condition import Condition
    from happysimulator.components.sync.mutex import Mutex
    _seed(5)
    lock = Mutex("cl")
    cond = Condition("c", lock)
    items = []
    got = []

    def consumer(w, ev):
        yield from lock.acquire(w.name)
        ok = yield from cond.wait_for(lambda: bool(items), timeout=ev.context["timeout"])
        if ok:
            got.append((w.name, items.pop(0), w.now.nanoseconds))
        else:
            got.append((w.name, None, w.now.nanoseconds))
        r = lock.release()
        if r:
            yield 0.0, r

    def producer(w, ev):
        yield ev.context["delay"]
        yield from lock.acquire(w.name)
        items.append(w.now.nanoseconds)
        evs = cond.notify(1) if ev.context.get("one") else cond.notify_all()
        yield THIRD            # keep the mutex for a while after notifying
        r = lock.release()
        yield 0.0, (evs or []) + (r or [])
    cs = _workers(4, consumer)
    ps = [_Proc(f"p{i}", producer) for i in range(4)]
    evs = [_ev(0.0, c, timeout=(NS, H3, ONE001, None)[i]) for i, c in enumerate(cs)]
    evs += [_ev(0.0, p, delay=(H3, P7, ONE001, 2.0)[i], one=(i % 2 == 0)) for i, p in enumerate(ps)]
    _run([lock, cond, *cs, *ps], evs, end=30.0, poke=[lock, cond])
    return {"got": len(got)}


# =====================================================================================================
# network
# =====================================================================================================

def data_net_link_source_sink():
    """source -> NetworkLink (truncating latency, bandwidth, jitter) -> sink, payload sizes."""
    _seed(10)
    sink = Sink("sink")
    link = _link("lnk", H3, bandwidth_bps=8_000.0 / 3, jitter=ExponentialLatency(THIRD / 10), egress=sink)

    def ctx(t, n):
        return {"created_at": t, "metadata": {"payload_size": (n * 37) % 501}}
    src = _src(7.0, link, "pkt", ctx, 2.0)
    _run([link, sink], sources=[src], end=4.0)     # a Source ticks forever: always a finite end_time
    return {"n": sink.events_received, "sent": link.packets_sent}


def data_net_link_lossy_burst():
    """Same-instant burst through a lossy 1 ns link and through a zero-latency link; finite end_time."""
    _seed(11)
    sink = Sink("sink")
    lossy = _link("lossy", NS, packet_loss_rate=0.3, egress=sink)
    zero = _link("zero", 0.0, egress=sink)
    noeg = _link("noegress", ONE001)
    evs = [_ev(THIRD, lossy, "pkt") for _ in range(40)] + [_ev(THIRD, zero, "pkt") for _ in range(40)]
    evs += [_ev(THIRD, noeg, "pkt")]
    _run([lossy, zero, noeg, sink], evs, end=5.0)
    return {"n": sink.events_received, "dropped": lossy.packets_dropped}


def data_net_network_partition_heal():
    """client <-> server through Network; symmetric and asymmetric partitions created and healed exactly
    at message instants; unroutable and metadata-less events."""
    from happysimulator.components.network.network import Network
    _seed(12)
    net = Network(name="net")
    got = []

    def server(w, ev):
        got.append((w.name, ev.event_type, w.now.nanoseconds))
        if ev.event_type == "ping":
            src = ev.context["metadata"]["source"]
            yield H3 / 10
            return [net.send(w, peers[src], "pong", payload={"n": ev.context["metadata"].get("n")})]
        return None
    a, b, c = _Proc("a", server), _Proc("b", server), _Proc("c", server)
    peers = {"a": a, "b": b, "c": c}
    _mesh(net, [a, b], lat=THIRD / 10)
    net.add_link(a, c, _link("ac", P7 / 10))          # one-way only: c cannot answer a
    handles = {}

    def ctl(w, ev):
        op = ev.context["op"]
        if op == "part":
            handles["p"] = net.partition([a], [b])
        elif op == "apart":
            handles["q"] = net.partition([b], [a], asymmetric=True)
        elif op == "heal":
            handles.pop("p").heal()
        elif op == "healall":
            net.heal_partition()
        return None
    k = _Proc("ctl", ctl)
    evs = []
    for i in range(12):
        t = i * H3
        evs.append(_msg(t, net, a, b, "ping", n=i))
        evs.append(_msg(t, net, b, a, "ping", n=i))
        evs.append(_msg(t, net, a, c, "ping", n=i))
    evs += [_ev(3 * H3, k, op="part"), _ev(5 * H3, k, op="heal"), _ev(6 * H3, k, op="apart"),
            _ev(9 * H3, k, op="healall")]
    evs.append(Event(time=_t(0.5), event_type="nometa", target=net))
    _run([net, a, b, c, k], evs, end=None)
    return {"got": len(got), "routed": net.events_routed, "part": net.events_dropped_partition,
            "noroute": net.events_dropped_no_route}


def data_net_conditions_all():
    """Every predefined link profile as a route of one Network; a burst over each."""
    from happysimulator.components.network import conditions as C
    from happysimulator.components.network.network import Network
    _seed(13)
    net = Network(name="net")
    sink_log = []

    def rx(w, ev):
        sink_log.append((w.name, w.now.nanoseconds))
        return None
    hub = _Proc("hub", rx)
    mk = [C.local_network, C.datacenter_network, C.cross_region_network, C.internet_network,
          C.satellite_network, lambda name: C.lossy_network(0.25, name=name, base_latency=THIRD / 100),
          lambda name: C.slow_network(ONE001, name=name, bandwidth_bps=1e4 / 3),
          C.mobile_3g_network, C.mobile_4g_network]
    leaves = []
    for i, f in enumerate(mk):
        leaf = _Proc(f"n{i}", rx)
        leaves.append(leaf)
        net.add_bidirectional_link(hub, leaf, f(name=f"link{i}"))
    net.default_link = None
    evs = []
    for i, leaf in enumerate(leaves):
        for j in range(6):
            evs.append(_msg(0.1 * j, net, hub, leaf, "data", payload_size=100 + 400 * j))
            evs.append(_msg(0.1 * j, net, leaf, hub, "data", size=64))
    _run([net, hub, *leaves], evs)
    return {"rx": len(sink_log), "links": len(net.traffic_matrix())}


def data_net_default_link_pingpong():
    """Zero-latency and 1 ns default link: a bounded ping-pong chain stays at (almost) one instant."""
    from happysimulator.components.network.network import Network
    out = {}
    for lat in (0.0, NS, THIRD):
        _seed(14)
        net = Network(name="net", default_link=_link("dflt", lat))
        cnt = [0]

        def peer(w, ev, net=net, cnt=cnt):
            cnt[0] += 1
            n = ev.context["metadata"]["n"]
            if n <= 0:
                return None
            other = b if w is a else a
            e = net.send(w, other, "hop", payload={"n": n - 1})
            return [e]
        a, b = _Proc("a", peer), _Proc("b", peer)
        # a -> b has no route of its own and falls back to the default link (whose egress is b);
        # b -> a is an explicit one-way route
        net.default_link.egress = b
        net.add_link(b, a, _link("ba", lat))
        _run([net, a, b], [_msg(0.25, net, a, b, "hop", n=300)], end=(None if lat else 1.0))
        out[str(lat)] = cnt[0]
    return out


# =====================================================================================================
# messaging
# =====================================================================================================

def _payload(target, n):
    return Event(time=Instant.Epoch, event_type="payload", target=target, context={"n": n})


def data_mq_poll_ack():
    """Producers publish, a Source polls the queue, consumers ack after hostile delays (1 ns .. 1.001 s);
    delivery latency 1/3 s so that polls overlap deliveries in flight."""
    from happysimulator.components.messaging.message_queue import MessageQueue
    _seed(20)
    q = MessageQueue("q", delivery_latency=THIRD, redelivery_delay=H3, max_redeliveries=3)
    sink = Sink("sink")
    acked = []

    def consumer(w, ev):
        if ev.event_type != "message_delivery":
            return None
        mid = ev.context["message_id"]
        yield HOSTILE[len(acked) % len(HOSTILE)]
        q.acknowledge(mid)
        acked.append(mid)
        return [Event(time=w.now, event_type="done", target=sink)]

    def producer(w, ev):
        for i in range(ev.context["k"]):
            yield from q.publish(_payload(sink, i))
        return [Event(time=w.now, event_type="poll", target=q)]
    cs = [_Proc(f"c{i}", consumer) for i in range(3)]
    for c in cs:
        q.subscribe(c)
    p = _Proc("prod", producer)
    evs = [_ev(0.0, p, k=5), _ev(THIRD, p, k=3), _ev(THIRD, p, k=1), _ev(ONE001, p, k=4)]
    poller = Source.constant(rate=3.0, target=q, event_type="poll", name="poller", stop_after=6.0)
    _run([q, sink, p, *cs], evs, sources=[poller], end=8.0)
    return {"acked": len(acked), "pending": q.pending_count, "inflight": q.in_flight_count}


def data_mq_redelivery_dlq():
    """Consumers never ack in time: visibility timeouts shorter and longer than the redelivery delay,
    redelivery until dead-lettered; DLQ with capacity and a 0.7 s retention; reprocess_all back into the
    queue; cleanup/clear admin events exactly at the retention boundary."""
    from happysimulator.components.messaging.dlq import DeadLetterQueue
    from happysimulator.components.messaging.message_queue import MessageQueue
    out = {}
    for rdel, tmo in ((H3, NS), (THIRD, ONE001), (ONE001, H3), (NS, THIRD)):
        _seed(21)
        dlq = DeadLetterQueue("dlq", capacity=3, retention_period=P7)
        q = MessageQueue("q", delivery_latency=H3 / 3, redelivery_delay=rdel, max_redeliveries=2,
                         dead_letter_queue=dlq)
        sink = Sink("sink")

        def consumer(w, ev, q=q, tmo=tmo):
            if ev.event_type != "message_delivery":
                return None
            mid = ev.context["message_id"]
            yield tmo                                  # visibility timeout elapses without an ack
            r = q.schedule_redelivery(mid)
            return [r] if r is not None else None

        def producer(w, ev, q=q, sink=sink):
            for i in range(ev.context["k"]):
                yield from q.publish(_payload(sink, i))
            return [Event(time=w.now, event_type="poll", target=q) for _ in range(ev.context["k"])]

        def admin(w, ev, q=q, dlq=dlq):
            op = ev.context["op"]
            if op == "reprocess":
                return dlq.reprocess_all(q)
            if op == "one":
                m = dlq.peek()
                r = dlq.reprocess(m, q) if m is not None else None
                return [r] if r is not None else None
            return [Event(time=w.now, event_type=op, target=dlq)]
        c = _Proc("c", consumer)
        q.subscribe(c)
        p, a = _Proc("prod", producer), _Proc("admin", admin)
        evs = [_ev(0.0, p, k=4), _ev(2.0, p, k=2)]
        evs += [_ev(4.0, a, op="one"), _ev(4.0 + P7, a, op="cleanup"), _ev(4.0 + P7 + NS, a, op="cleanup"),
                _ev(6.0, a, op="reprocess"), _ev(7.0, a, op="clear")]
        poller = Source.constant(rate=4.0, target=q, event_type="poll", name="poller", stop_after=5.0)
        _run([q, dlq, sink, p, a, c], evs, sources=[poller], end=9.0)
        out[f"{rdel:.3g}"] = [q.stats.messages_redelivered, q.stats.messages_dead_lettered, dlq.message_count]
    return out


def data_mq_capacity_reject_burst():
    """Capacity 3, ten publishes at one instant (overflow raises in the producer, caught), consumers
    reject with and without requeue, no subscribers at first; no end_time."""
    from happysimulator.components.messaging.message_queue import MessageQueue
    _seed(22)
    q = MessageQueue("q", delivery_latency=NS, redelivery_delay=THIRD, max_redeliveries=1, capacity=3)
    sink = Sink("sink")
    seen = []

    def consumer(w, ev):
        if ev.event_type != "message_delivery":
            return None
        mid = ev.context["message_id"]
        seen.append(mid)
        if len(seen) % 3 == 0:
            q.acknowledge(mid)
        else:
            q.reject(mid, requeue=(len(seen) % 3 == 1))
        return [Event(time=w.now, event_type="poll", target=q)]

    def producer(w, ev):
        ok = 0
        try:
            for i in range(ev.context["k"]):
                yield from q.publish(_payload(sink, i))
                ok += 1
        except RuntimeError:
            w.errors.append("full")
        return [Event(time=w.now, event_type="poll", target=q) for _ in range(ok)]

    def sub(w, ev):
        q.subscribe(c1)
        q.subscribe(c2)
        return [Event(time=w.now, event_type="poll", target=q) for _ in range(5)]

    def unsub(w, ev):
        q.unsubscribe(c1)
        return None
    c1, c2 = _Proc("c1", consumer), _Proc("c2", consumer)
    ps = [_Proc(f"p{i}", producer) for i in range(4)]
    k = _Proc("k", None)
    evs = [_ev(0.0, p, k=10) for p in ps] + [_ev(H3, k, body=sub), _ev(P7, k, body=unsub),
                                             _ev(ONE001, ps[0], k=2)]
    _run([q, sink, c1, c2, k, *ps], evs)
    return {"seen": len(seen), "full": sum(len(p.errors) for p in ps)}


def data_topic_fanout():
    """source -> Topic('publish') -> three subscribers; per-subscriber latency 0.1*3 so publishes overlap;
    unsubscribe/re-subscribe with history replay in the middle of a publish."""
    from happysimulator.components.messaging.topic import Topic
    _seed(23)
    topic = Topic("t", delivery_latency=H3, max_subscribers=4)
    topic.set_retain_messages(True, max_history=5)
    got = []

    def subscriber(w, ev):
        got.append((w.name, ev.context.get("is_replay"), w.now.nanoseconds))
        return None
    subs = [_Proc(f"s{i}", subscriber) for i in range(4)]
    for s in subs[:3]:
        topic.subscribe(s)

    def ctl(w, ev):
        op = ev.context["op"]
        if op == "unsub":
            topic.unsubscribe(subs[1])
            return None
        if op == "late":
            return topic.subscribe(subs[3], replay_history=True)
        if op == "resub":
            return topic.subscribe(subs[1], replay_history=True)
        if op == "over":
            try:
                topic.subscribe(_Proc("extra", subscriber))
            except RuntimeError:
                w.errors.append("max")
        return None
    k = _Proc("ctl", ctl)

    def ctx(t, n):
        return {"created_at": t, "payload": _payload(subs[0], n)}
    src = _src(4.0, topic, "publish", ctx, 3.0)
    evs = [_ev(0.5 + H3, k, op="unsub"), _ev(ONE001, k, op="late"), _ev(2.0, k, op="resub"),
           _ev(2.0, k, op="over"), Event(time=_t(0.1), event_type="publish", target=topic)]
    _run([topic, k, *subs], evs, sources=[src], end=8.0)
    return {"got": len(got), "pub": topic.stats.messages_published}


def data_topic_zero_latency_burst():
    """Zero and 1 ns delivery latency, fifty publishes at one instant, publish_sync from a driver;
    no end_time."""
    from happysimulator.components.messaging.topic import Topic
    out = {}
    for lat in (0.0, NS):
        _seed(24)
        topic = Topic("t", delivery_latency=lat)
        n = [0]

        def subscriber(w, ev, n=n):
            n[0] += 1
            return None
        subs = [_Proc(f"s{i}", subscriber) for i in range(5)]
        for s in subs:
            topic.subscribe(s)

        def syncpub(w, ev, topic=topic, subs=subs):
            yield THIRD
            return topic.publish_sync(_payload(subs[0], -1))
        d = _Proc("d", syncpub)
        evs = [Event(time=_t(THIRD), event_type="publish", target=topic,
                     context={"payload": _payload(subs[0], i)}) for i in range(50)]
        evs.append(_ev(0.0, d))
        _run([topic, d, *subs], evs)
        out[str(lat)] = n[0]
    return out


# =====================================================================================================
# streaming
# =====================================================================================================

def data_eventlog_append_read_time_retention():
    """source -> EventLog('Append'); readers use the generator API; TimeRetention(0.7 s) swept every
    0.1*3 s; append latency 1/3 s so appends overlap sweeps."""
    from happysimulator.components.streaming.event_log import EventLog, TimeRetention
    _seed(30)
    log = EventLog("log", num_partitions=3, retention_policy=TimeRetention(P7), append_latency=THIRD,
                   read_latency=H3 / 10, retention_check_interval=H3)
    reads = []

    def reader(w, ev):
        for pid in range(3):
            recs = yield from log.read(pid, offset=0, max_records=5)
            reads.append(len(recs))

    def writer(w, ev):
        rec = yield from log.append(f"k{ev.context['i']}", {"i": ev.context["i"]})
        reads.append(rec.offset)
    r, wr = _Proc("reader", reader), _Proc("writer", writer)

    def ctx(t, n):
        return {"created_at": t, "key": f"user-{n % 5}", "value": n}
    src = _src(6.0, log, "Append", ctx, 3.0)
    evs = [_ev(i * H3, r) for i in range(1, 12)] + [_ev(i * THIRD, wr, i=i) for i in range(9)]
    _run([log, r, wr], evs, sources=[src], end=6.0)
    return {"appended": log.stats.records_appended, "expired": log.stats.records_expired, "reads": len(reads)}


def data_eventlog_size_retention_boundaries():
    """SizeRetention(2), sweep period 1/3 s, appends scheduled exactly on the sweep instants (the sweep
    chain starts when the first append completes) and 1 ns around them."""
    from happysimulator.components.streaming.event_log import EventLog, SizeRetention
    _seed(31)
    lat = 0.125
    log = EventLog("log", num_partitions=1, retention_policy=SizeRetention(2), append_latency=lat,
                   read_latency=NS, retention_check_interval=THIRD)
    evs = []
    first = Instant.from_seconds(lat)
    for k in range(12):
        tk = Instant.from_seconds(first.to_seconds() + 0.0)   # boundaries are computed like the component does
        for _ in range(k):
            tk = Instant.from_seconds(tk.to_seconds() + THIRD)
        for d in (-1, 0, 1):
            t = Instant(max(0, tk.nanoseconds + d - int(lat * 1e9)))
            evs.append(Event(time=t, event_type="Append", target=log, context={"key": "k", "value": k}))
    evs.append(Event(time=_t(1.0), event_type="Read", target=log, context={"partition": 0, "offset": 0}))
    _run([log], evs, end=5.0)
    return {"appended": log.stats.records_appended, "expired": log.stats.records_expired}


def data_eventlog_ns_retention_period():
    """retention_check_interval of 1 ns (the smallest representable period) with a finite end_time
    shortly after the first append."""
    from happysimulator.components.streaming.event_log import EventLog, SizeRetention
    _seed(32)
    log = EventLog("log", num_partitions=1, retention_policy=SizeRetention(1), append_latency=NS * 5,
                   retention_check_interval=NS)
    evs = [Event(time=_t(0.0), event_type="Append", target=log, context={"key": "k", "value": i})
           for i in range(3)]
    _run([log], evs, end=2e-6)
    return {"appended": log.stats.records_appended, "expired": log.stats.records_expired}


def data_consumer_group_flow():
    """Three consumers join at one instant, poll/commit in a loop, one leaves and rejoins; every
    assignment strategy; rebalance delay 1.001 s, poll latency 1 ns; producers append concurrently."""
    from happysimulator.components.streaming.consumer_group import (ConsumerGroup, RangeAssignment,
                                                                  RoundRobinAssignment, StickyAssignment)
    from happysimulator.components.streaming.event_log import EventLog
    out = {}
    for strat in (RangeAssignment(), RoundRobinAssignment(), StickyAssignment()):
        _seed(33)
        log = EventLog("log", num_partitions=4, append_latency=H3 / 10, read_latency=NS)
        grp = ConsumerGroup("grp", log, assignment_strategy=strat, rebalance_delay=ONE001,
                            poll_latency=NS, session_timeout=P7)
        polled = []

        def consumer(w, ev, grp=grp, polled=polled):
            yield from grp.join(w.name, w)
            offs = {}
            for _ in range(4):
                recs = yield from grp.poll(w.name, max_records=3)
                polled.append(len(recs))
                for r in recs:
                    offs[r.partition] = max(offs.get(r.partition, 0), r.offset + 1)
                if offs:
                    yield from grp.commit(w.name, dict(offs))
                yield THIRD
            if ev.context.get("leave"):
                yield from grp.leave(w.name)
                yield H3
                yield from grp.join(w.name, w)
                recs = yield from grp.poll(w.name)
                polled.append(len(recs))

        def producer(w, ev, log=log):
            for i in range(12):
                yield from log.append(f"key-{i}", i)
                yield NS
        cs = [_Proc(f"c{i}", consumer) for i in range(3)]
        p = _Proc("p", producer)
        evs = [_ev(0.0, p)] + [_ev(0.0, c, leave=(i == 1)) for i, c in enumerate(cs)]
        _run([log, grp, p, *cs], evs)
        out[type(strat).__name__] = [sum(polled), grp.stats.rebalances, grp.total_lag()]
    return out


def _window_src(proc, rate, stop, jitter_late=False, late_by=2.0):
    def ctx(t, n):
        ts = t.to_seconds()
        if jitter_late and n % 4 == 0:
            ts = max(0.0, ts - late_by)         # a late event
        return {"created_at": t, "key": f"k{n % 2}", "value": n, "event_time_s": ts}
    return _src(rate, proc, "Process", ctx, stop)


def data_stream_tumbling():
    """source -> StreamProcessor(TumblingWindow(0.1*3)) -> sink; watermark every 1/3 s; events exactly on
    window boundaries."""
    from happysimulator.components.streaming.stream_processor import StreamProcessor, TumblingWindow
    _seed(34)
    sink = Sink("sink")
    sp = StreamProcessor("sp", TumblingWindow(H3), sum, sink, watermark_interval_s=THIRD)
    src = _window_src(sp, 10.0, 3.0)
    evs = [Event(time=_t(k * H3), event_type="Process", target=sp, context={"key": "b", "value": 1,
                                                                            "event_time": _t(k * H3)})
           for k in range(8)]
    _run([sp, sink], evs, sources=[src], end=5.0)
    return {"windows": sp.stats.windows_emitted, "sink": sink.events_received}


def data_stream_sliding_late_side_output():
    """SlidingWindow(1.001, 1/3), allowed lateness 0.1*3, SIDE_OUTPUT and DROP policies, every fourth
    event is 2 s late."""
    from happysimulator.components.streaming.stream_processor import (LateEventPolicy, SlidingWindow,
                                                                      StreamProcessor)
    out = {}
    for pol in (LateEventPolicy.SIDE_OUTPUT, LateEventPolicy.DROP):
        _seed(35)
        sink, side = Sink("sink"), Sink("side")
        sp = StreamProcessor("sp", SlidingWindow(ONE001, THIRD), len, sink, allowed_lateness_s=H3,
                             late_event_policy=pol, side_output=side, watermark_interval_s=THIRD)
        src = _window_src(sp, 9.0, 5.0, jitter_late=True)
        _run([sp, sink, side], sources=[src], end=7.0)
        out[pol.name] = [sp.stats.windows_emitted, sp.stats.late_events, side.events_received]
    return out


def data_stream_session_update():
    """SessionWindow(gap 0.7 s) with bursts separated by gaps just below / above the gap, UPDATE policy,
    same-instant burst of 30 events."""
    from happysimulator.components.streaming.stream_processor import (LateEventPolicy, SessionWindow,
                                                                      StreamProcessor, TumblingWindow)
    _seed(36)
    sink = Sink("sink")
    sp = StreamProcessor("sp", SessionWindow(P7), len, sink, late_event_policy=LateEventPolicy.UPDATE,
                         watermark_interval_s=H3)
    times = [0.0, 0.1, P7 + 0.1 - NS, 2 * P7 + 0.1, 2 * P7 + 0.1 + P7 + NS, 5.0, 5.0 + P7]
    evs = [Event(time=_t(t), event_type="Process", target=sp, context={"key": "u", "value": i})
           for i, t in enumerate(times)]
    evs += [Event(time=_t(3.0), event_type="Process", target=sp, context={"key": f"b{i % 3}", "value": i})
            for i in range(30)]
    evs += [Event(time=_t(6.0), event_type="Process", target=sp,
                  context={"key": "u", "value": 99, "event_time_s": 0.05})]
    _run([sp, sink], evs, end=9.0)
    sink2 = Sink("sink2")
    sp2 = StreamProcessor("sp2", TumblingWindow(THIRD), len, sink2, late_event_policy=LateEventPolicy.UPDATE,
                          watermark_interval_s=THIRD)
    src = _window_src(sp2, 7.0, 2.0, jitter_late=True)
    _run([sp2, sink2], sources=[src], end=4.0)
    return {"w": sp.stats.windows_emitted, "w2": sp2.stats.windows_emitted}


def data_stream_ns_watermark_interval():
    """watermark_interval_s of 1 ns with a finite end_time 2 us after the first event."""
    from happysimulator.components.streaming.stream_processor import StreamProcessor, TumblingWindow
    _seed(37)
    sink = Sink("sink")
    sp = StreamProcessor("sp", TumblingWindow(NS * 100), len, sink, watermark_interval_s=NS)
    evs = [Event(time=_t(0.0), event_type="Process", target=sp, context={"key": "k", "value": i})
           for i in range(3)]
    _run([sp, sink], evs, end=2e-6)
    return {"w": sp.stats.windows_emitted}


# =====================================================================================================
# storage
# =====================================================================================================

def data_wal_sync_policies():
    """WriteAheadLog under every sync policy (every write, periodic 0.1*3 s, batch of 3), three writers
    appending concurrently, crash / recover / truncate in the middle of an append."""
    from happysimulator.components.storage.wal import (SyncEveryWrite, SyncOnBatch, SyncPeriodic,
                                                       WriteAheadLog)
    out = {}
    for pol in (SyncEveryWrite(), SyncPeriodic(H3), SyncOnBatch(3)):
        _seed(40)
        wal = WriteAheadLog("wal", sync_policy=pol, write_latency=THIRD / 10, sync_latency=H3 / 10)
        seqs = []

        def writer(w, ev, wal=wal, seqs=seqs):
            for i in range(ev.context["k"]):
                s = yield from wal.append(f"{w.name}-{i}", i)
                seqs.append(s)
                yield ev.context["gap"]

        def crash(w, ev, wal=wal):
            lost = wal.crash()
            rec = wal.recover()
            wal.truncate(rec[len(rec) // 2].sequence_number if rec else 0)
            wal.append_sync("after-crash", lost)
            return None
        ws = _workers(3, writer)
        k = _Proc("crash", crash)
        evs = [_ev(0.0, w, k=6, gap=(NS, H3 / 3, 0.0)[i]) for i, w in enumerate(ws)]
        evs += [_ev(H3, k), _ev(H3 + THIRD / 20, k)]
        _run([wal, k, *ws], evs, poke=[wal])
        out[type(pol).__name__] = [len(seqs), wal.stats.syncs, wal.size]
    return out


def data_memtable_sstable():
    """Memtable put/get with hostile latencies from concurrent drivers, flush into SSTables, SSTable
    lookups / scans priced as page reads."""
    from happysimulator.components.storage.memtable import Memtable
    from happysimulator.components.storage.sstable import SSTable
    _seed(41)
    mt = Memtable("mt", size_threshold=5, write_latency=THIRD / 100, read_latency=NS)
    tables = []
    hits = []

    def writer(w, ev):
        for i in range(12):
            full = yield from mt.put(f"k{(i * 7) % 10:02d}", (w.name, i))
            if full:
                tables.append(mt.flush())
            yield HOSTILE[i % len(HOSTILE)] / 100

    def reader(w, ev):
        for i in range(12):
            v = yield from mt.get(f"k{i % 10:02d}")
            for sst in tables[-2:]:
                if sst.contains(f"k{i % 10:02d}"):
                    yield sst.page_reads_for_get(f"k{i % 10:02d}") * (H3 / 1000)
                    v = sst.get(f"k{i % 10:02d}")
            hits.append(v is not None)
            yield THIRD / 50
        big = SSTable([(f"x{j:03d}", j) for j in range(200)], index_interval=7, level=1, sequence=9)
        yield big.page_reads_for_scan("x010", "x150") * (H3 / 1000)
        hits.append(len(big.scan("x010", "x150")) > 0)
    ws, rs = _workers(2, writer), [_Proc(f"r{i}", reader) for i in range(2)]
    evs = [_ev(0.0, x) for x in ws + rs]
    _run([mt, *ws, *rs], evs, poke=[mt])
    return {"tables": len(tables), "hits": sum(hits), "flushes": mt.stats.flushes}


def _lsm_workload(lsm, n_writers=3, keys=14, crash_at=None):
    log = []

    def writer(w, ev):
        for i in range(keys):
            yield from lsm.put(f"k{(i * 5 + ev.context['o']) % 17:02d}", (w.name, i))
            if i % 5 == 4:
                yield from lsm.delete(f"k{i % 17:02d}")
            yield HOSTILE[(i + ev.context["o"]) % len(HOSTILE)] / 1000

    def reader(w, ev):
        for i in range(keys):
            v = yield from lsm.get(f"k{i % 17:02d}")
            log.append(v is not None)
            if i % 6 == 0:
                r = yield from lsm.scan("k03", "k11")
                log.append(len(r))
            yield THIRD / 500

    def crash(w, ev):
        lsm.crash()
        lsm.recover_from_crash()
        return None
    ws = [_Proc(f"w{i}", writer) for i in range(n_writers)]
    rs = [_Proc(f"r{i}", reader) for i in range(2)]
    k = _Proc("crash", crash)
    evs = [_ev(0.0, w, o=i) for i, w in enumerate(ws)] + [_ev(THIRD / 100, r) for r in rs]
    if crash_at is not None:
        evs.append(_ev(crash_at, k))
    return ws + rs + [k], evs, log


def data_lsm_size_tiered_wal():
    """LSMTree with a WAL, memtable of 4 entries, size-tiered compaction after 2 SSTables; concurrent
    writers/readers/scans/deletes; CompactionTrigger events from a Source; crash + recovery between two
    rounds of writes (a crash() while a flush is suspended makes the flush raise ValueError when it
    resumes - a functional defect outside C07, so the crash is placed in a quiet moment)."""
    from happysimulator.components.storage.lsm_tree import LSMTree, SizeTieredCompaction
    from happysimulator.components.storage.wal import SyncOnBatch, WriteAheadLog
    _seed(42)
    wal = WriteAheadLog("wal", sync_policy=SyncOnBatch(2), write_latency=H3 / 1000, sync_latency=THIRD / 1000)
    lsm = LSMTree("lsm", memtable_size=4, compaction_strategy=SizeTieredCompaction(min_sstables=2), wal=wal,
                  sstable_read_latency=THIRD / 1000, sstable_write_latency=H3 / 100, max_levels=3)
    ents, evs, log = _lsm_workload(lsm, crash_at=1.5)
    evs += [_ev(1.5 + NS, w, o=i + 3) for i, w in enumerate(ents[:2])]
    trig = Source.constant(rate=30.0, target=lsm, event_type="CompactionTrigger", name="trig", stop_after=2.0)
    _run([lsm, wal, *ents], evs, sources=[trig], end=3.0, poke=[wal])
    return {"reads": len(log), "compactions": lsm.stats.compactions, "flushes": lsm.stats.memtable_flushes}


def data_lsm_leveled_fifo():
    """LSMTree without WAL under leveled and FIFO compaction, no end_time."""
    from happysimulator.components.storage.lsm_tree import FIFOCompaction, LeveledCompaction, LSMTree
    out = {}
    for strat in (LeveledCompaction(), FIFOCompaction(max_total_sstables=3)):
        _seed(43)
        lsm = LSMTree("lsm", memtable_size=3, compaction_strategy=strat, sstable_read_latency=NS,
                      sstable_write_latency=ONE001 / 1000, max_levels=4)
        ents, evs, log = _lsm_workload(lsm, n_writers=2, keys=20)
        evs += [Event(time=_t(x), event_type="CompactionTrigger", target=lsm) for x in (0.0, H3 / 100, 0.05)]
        _run([lsm, *ents], evs)
        out[type(strat).__name__] = [len(log), lsm.stats.compactions]
    return out


def data_btree_ops():
    """BTree(order 3) so that every few inserts split; concurrent get/put/delete/scan, page latencies
    1/3 ms and 1 ns."""
    from happysimulator.components.storage.btree import BTree
    out = {}
    for rl, wl in ((THIRD / 1000, H3 / 1000), (NS, NS)):
        _seed(44)
        bt = BTree("bt", order=3, page_read_latency=rl, page_write_latency=wl)
        res = []

        def writer(w, ev, bt=bt):
            for i in range(25):
                yield from bt.put(f"k{(i * 11 + ev.context['o']) % 40:02d}", i)
                if i % 4 == 3:
                    yield from bt.delete(f"k{(i * 3) % 40:02d}")

        def reader(w, ev, bt=bt, res=res):
            for i in range(25):
                v = yield from bt.get(f"k{i % 40:02d}")
                res.append(v)
                if i % 8 == 0:
                    r = yield from bt.scan("k05", "k30")
                    res.append(len(r))
        ws = [_Proc(f"w{i}", writer) for i in range(2)]
        rs = [_Proc(f"r{i}", reader) for i in range(2)]
        evs = [_ev(0.0, w, o=i) for i, w in enumerate(ws)] + [_ev(0.0, r) for r in rs]
        _run([bt, *ws, *rs], evs, poke=[bt])
        out[str(rl)] = [bt.size, bt.depth, bt.stats.node_splits]
    return out


def data_txn_manager_conflicts():
    """TransactionManager over a BTree and over an LSMTree, every isolation level, transactions that
    overlap on the same keys and commit at the same instant (write-write and read-write conflicts)."""
    from happysimulator.components.storage.btree import BTree
    from happysimulator.components.storage.lsm_tree import LSMTree
    from happysimulator.components.storage.transaction_manager import IsolationLevel, TransactionManager
    out = {}
    for mk in ("btree", "lsm"):
        for iso in IsolationLevel:
            _seed(45)
            store = (BTree("st", order=4, page_read_latency=THIRD / 1000, page_write_latency=H3 / 1000)
                     if mk == "btree" else LSMTree("st", memtable_size=5, sstable_read_latency=THIRD / 1000))
            tm = TransactionManager("tm", store, isolation=iso)
            res = []

            def txn(w, ev, tm=tm, res=res):
                tx = yield from tm.begin()
                a = yield from tx.read("acct-a")
                yield ev.context["think"]
                yield from tx.write("acct-a", (a or 0) + 1)
                yield from tx.write(f"acct-{w.name}", 1)
                if ev.context.get("abort"):
                    tx.abort()
                    res.append("abort")
                    return
                ok = yield from tx.commit()
                res.append(ok)
            ws = _workers(5, txn)
            evs = [_ev(0.0, w, think=(H3 / 100, H3 / 100, THIRD / 100, NS, ONE001 / 100)[i], abort=(i == 4))
                   for i, w in enumerate(ws)]
            evs += [_ev(0.01, w, think=NS) for w in ws[:2]]
            _run([store, tm, *ws], evs, poke=[tm])
            out[f"{mk}:{iso.name}"] = [tm.stats.transactions_committed, tm.stats.transactions_aborted]
    return out


# =====================================================================================================
# datastore
# =====================================================================================================

def data_kvstore_capacity_latencies():
    """KVStore with capacity 3 (FIFO eviction), distinct read / write / delete latencies, six drivers at
    one instant; zero-latency store as a second simulation."""
    from happysimulator.components.datastore.kv_store import KVStore
    out = {}
    for rl, wl, dl in ((THIRD / 100, H3 / 100, ONE001 / 100), (0.0, 0.0, 0.0)):
        _seed(50)
        kv = KVStore("kv", read_latency=rl, write_latency=wl, delete_latency=dl, capacity=3)
        res = []

        def body(w, ev, kv=kv, res=res):
            for i in range(6):
                yield from kv.put(f"k{(i + ev.context['o']) % 5}", i)
                v = yield from kv.get(f"k{i % 5}")
                res.append(v)
                if i % 3 == 2:
                    d = yield from kv.delete(f"k{i % 5}")
                    res.append(d)
        ws = _workers(6, body)
        _run([kv, *ws], [_ev(0.0, w, o=i) for i, w in enumerate(ws)], poke=[kv])
        out[str(rl)] = [kv.size, kv.stats.evictions]
    return out


def data_cached_store_policies():
    """CachedStore in front of a KVStore for every eviction policy (TTLEviction with a 0.1*3 s ttl read
    from the simulation clock), write-through and write-back with flush; reads racing writes."""
    from happysimulator.components.datastore import eviction_policies as E
    from happysimulator.components.datastore.cached_store import CachedStore
    from happysimulator.components.datastore.kv_store import KVStore
    out = {}
    clock = {}
    pols = [lambda: E.LRUEviction(), lambda: E.LFUEviction(),
            lambda: E.TTLEviction(H3, clock_func=lambda: clock["c"].now.to_seconds()),
            lambda: E.FIFOEviction(), lambda: E.RandomEviction(seed=3), lambda: E.SLRUEviction(0.5),
            lambda: E.SampledLRUEviction(sample_size=2, seed=4), lambda: E.ClockEviction(),
            lambda: E.TwoQueueEviction(0.5)]
    for i, mk in enumerate(pols):
        _seed(51)
        kv = KVStore("kv", read_latency=THIRD / 10, write_latency=H3 / 10)
        pol = mk()
        cs = CachedStore("cs", kv, cache_capacity=3, eviction_policy=pol, cache_read_latency=NS,
                         write_through=(i % 2 == 0))
        clock["c"] = cs
        res = []

        def body(w, ev, cs=cs, res=res):
            for j in range(8):
                k = f"k{(j * 3 + ev.context['o']) % 6}"
                if (j + ev.context["o"]) % 3 == 0:
                    yield from cs.put(k, j)
                else:
                    res.append((yield from cs.get(k)))
                if j == 5:
                    d = yield from cs.delete(k)
                    res.append(d)
                yield HOSTILE[j] / 10
            n = yield from cs.flush()
            res.append(n)
            cs.invalidate("k0")
        ws = _workers(3, body)
        _run([kv, cs, *ws], [_ev(0.0, w, o=k) for k, w in enumerate(ws)], poke=[kv, cs])
        out[type(pol).__name__] = [cs.stats.hits, cs.stats.misses, cs.stats.evictions]
    return out


def data_soft_ttl_cache_boundaries():
    """SoftTTLCache(soft 0.1*3, hard 1.001): reads exactly at / 1 ns around the soft and hard expiry of an
    entry, stale reads that trigger the background refresh (an event to the cache itself), coalesced
    reads during a refresh, capacity 2."""
    from happysimulator.components.datastore.kv_store import KVStore
    from happysimulator.components.datastore.soft_ttl_cache import SoftTTLCache
    from happysimulator.core.temporal import Duration
    out = {}
    for end, soft_ttl, hard_ttl in ((None, H3, ONE001), (3.0, H3, ONE001),
                                    (None, Duration(0), Duration.from_seconds(THIRD))):   # always stale
        _seed(52)
        kv = KVStore("kv", read_latency=THIRD / 10, write_latency=H3 / 10)
        for k in "abc":
            kv.put_sync(k, k.upper())
        c = SoftTTLCache("sttl", kv, soft_ttl=soft_ttl, hard_ttl=hard_ttl, cache_capacity=2,
                         cache_read_latency=NS)
        res = []

        def read(w, ev, c=c, res=res):
            v = yield from c.get(ev.context["k"])
            res.append((ev.context["k"], v, w.now.nanoseconds))

        def write(w, ev, c=c):
            yield from c.put(ev.context["k"], "new")
            c.invalidate("b")
        ws = _workers(4, read)
        stored = int((THIRD / 10) * 1e9)          # the first read of 'a' stores it at this instant
        soft, hard = stored + int(H3 * 1e9), stored + int(ONE001 * 1e9)
        evs = [_ev(0.0, ws[0], k="a")]
        for d in (-1, 0, 1):
            evs.append(_ev(Instant(soft + d), ws[1 + (d % 3)], k="a"))
            evs.append(_ev(Instant(hard + d), ws[1 + (d % 3)], k="a"))
        evs += [_ev(Instant(soft + 2), w, k="a") for w in ws]           # coalesce on the refresh in flight
        evs += [_ev(0.5, ws[0], k="b"), _ev(0.5, ws[1], k="c"), _ev(0.5 + NS, ws[2], k="zz"),
                _ev(0.7, ws[3], body=write, k="a"), _ev(2.5, ws[0], k="a"), _ev(2.5, ws[1], k="a")]
        _run([kv, c, *ws], evs, end=end, poke=[kv])
        out[f"{end}/{soft_ttl}"] = [c.stats.fresh_hits, c.stats.stale_hits, c.stats.hard_misses,
                                    c.stats.background_refreshes]
    return out


def data_cache_warmer_epoch():
    """CacheWarmer started at the epoch (the documented use): 3 keys/s -> a 1/3 s pacing delay, warmup
    reads through a CachedStore and through a SoftTTLCache; user reads race the warmer."""
    from happysimulator.components.datastore.cache_warming import CacheWarmer
    from happysimulator.components.datastore.cached_store import CachedStore
    from happysimulator.components.datastore.eviction_policies import LRUEviction
    from happysimulator.components.datastore.kv_store import KVStore
    from happysimulator.components.datastore.soft_ttl_cache import SoftTTLCache
    out = {}
    for kind in ("cached", "sttl"):
        _seed(53)
        kv = KVStore("kv", read_latency=H3 / 10, write_latency=THIRD / 10)
        for i in range(8):
            kv.put_sync(f"k{i}", i)
        cache = (CachedStore("c", kv, 4, LRUEviction(), cache_read_latency=NS) if kind == "cached"
                 else SoftTTLCache("c", kv, soft_ttl=P7, hard_ttl=ONE001, cache_read_latency=NS))
        wm = CacheWarmer("warm", cache, keys_to_warm=lambda: [f"k{i}" for i in range(6)] + ["missing"],
                         warmup_rate=3.0, warmup_latency=THIRD / 100)
        res = []

        def user(w, ev, cache=cache, res=res):
            for i in range(6):
                res.append((yield from cache.get(f"k{i}")))
                yield THIRD
        u = _Proc("user", user)
        _run([kv, cache, wm, u], [wm.start_warming(), _ev(THIRD, u)], poke=[kv])
        out[kind] = [wm.stats.keys_warmed, wm.stats.keys_failed, wm.is_complete]
    return out


def data_cache_warmer_late_start():
    """CacheWarmer.start_warming() called from inside a running simulation at t = 1/3 s and its event
    returned by the caller (a deployment step that warms a new cache node)."""
    from happysimulator.components.datastore.cache_warming import CacheWarmer
    from happysimulator.components.datastore.cached_store import CachedStore
    from happysimulator.components.datastore.eviction_policies import FIFOEviction
    from happysimulator.components.datastore.kv_store import KVStore
    _seed(54)
    kv = KVStore("kv", read_latency=H3 / 10)
    for i in range(4):
        kv.put_sync(f"k{i}", i)
    cache = CachedStore("c", kv, 4, FIFOEviction(), cache_read_latency=NS)
    wm = CacheWarmer("warm", cache, keys_to_warm=[f"k{i}" for i in range(4)], warmup_rate=1 / H3)

    def deploy(w, ev):
        yield THIRD
        return [wm.start_warming()]
    d = _Proc("deploy", deploy)
    _run([kv, cache, wm, d], [_ev(0.0, d)], end=5.0)
    return {"warmed": wm.stats.keys_warmed, "complete": wm.is_complete}


def data_database_pool_contention():
    """Database with 2 connections and 7 concurrent clients (the rest poll for a connection), a query
    latency function returning hostile values, transactions that commit / roll back, no end_time."""
    from happysimulator.components.datastore.database import Database
    _seed(55)
    lat = {"SELECT": THIRD / 10, "UPDATE": H3 / 10, "INSERT": ONE001 / 100, "DELETE": NS}
    db = Database("db", max_connections=2, query_latency=lambda q: lat.get(q.split()[0].upper(), P7 / 100),
                  connection_latency=THIRD / 100, commit_latency=H3 / 100, rollback_latency=NS)
    db.create_table("t")
    res = []

    def client(w, ev):
        r = yield from db.execute("SELECT * FROM t")
        res.append(r)
        tx = yield from db.begin_transaction()
        yield from tx.execute("UPDATE t SET x = 1")
        yield from tx.execute("INSERT INTO t VALUES (1)")
        if ev.context["rollback"]:
            yield from tx.rollback()
        else:
            yield from tx.commit()
        r = yield from db.execute("DELETE FROM t")
        res.append(r)
        r = yield from db.execute("VACUUM")
        res.append(r)
    ws = _workers(7, client)
    evs = [_ev(0.0 if i < 5 else H3 / 10, w, rollback=(i % 3 == 0)) for i, w in enumerate(ws)]
    _run([db, *ws], evs, poke=[db])
    return {"res": len(res), "waits": db.stats.connection_wait_count, "q": db.stats.queries_executed}


def data_multi_tier_cache():
    """MultiTierCache L1 (CachedStore, 1 ns) / L2 (CachedStore, 1/3 ms) over a KVStore for every promotion
    policy; reads, writes, deletes and invalidations from three drivers."""
    from happysimulator.components.datastore.cached_store import CachedStore
    from happysimulator.components.datastore.eviction_policies import LFUEviction, LRUEviction
    from happysimulator.components.datastore.kv_store import KVStore
    from happysimulator.components.datastore.multi_tier_cache import MultiTierCache, PromotionPolicy
    out = {}
    for pol in PromotionPolicy:
        _seed(56)
        kv = KVStore("kv", read_latency=H3 / 10, write_latency=ONE001 / 100)
        for i in range(10):
            kv.put_sync(f"k{i}", i)
        l1 = CachedStore("l1", kv, 2, LRUEviction(), cache_read_latency=NS)
        l2 = CachedStore("l2", kv, 5, LFUEviction(), cache_read_latency=THIRD / 1000)
        mt = MultiTierCache("mt", [l1, l2], kv, promotion_policy=pol)
        res = []

        def body(w, ev, mt=mt, res=res):
            for j in range(10):
                k = f"k{(j * (1 + ev.context['o'])) % 10}"
                res.append((yield from mt.get(k)))
                if j % 4 == 1:
                    yield from mt.put(k, -j)
                if j % 5 == 4:
                    yield from mt.delete(k)
                    mt.invalidate(f"k{j % 10}")
                yield HOSTILE[j % len(HOSTILE)] / 100
        ws = _workers(3, body)
        _run([kv, l1, l2, mt, *ws], [_ev(0.0, w, o=i) for i, w in enumerate(ws)], poke=[kv, l1, l2, mt])
        out[pol.name] = [mt.stats.reads, mt.stats.promotions]
    return out


def data_replicated_store_levels():
    """ReplicatedStore over three KVStores with different latencies for every (read, write) consistency
    pair; timeouts shorter than a replica's latency."""
    from happysimulator.components.datastore.kv_store import KVStore
    from happysimulator.components.datastore.replicated_store import ConsistencyLevel, ReplicatedStore
    out = {}
    for rc in ConsistencyLevel:
        for wc in ConsistencyLevel:
            _seed(57)
            reps = [KVStore(f"r{i}", read_latency=(NS, THIRD / 10, ONE001 / 10)[i],
                            write_latency=(H3 / 10, NS, P7 / 10)[i]) for i in range(3)]
            rs = ReplicatedStore("rs", reps, read_consistency=rc, write_consistency=wc,
                                 read_timeout=THIRD / 100, write_timeout=H3 / 100)
            res = []

            def body(w, ev, rs=rs, res=res):
                for j in range(4):
                    ok = yield from rs.put(f"k{j}", (w.name, j))
                    v = yield from rs.get(f"k{(j + 1) % 4}")
                    res.append((ok, v is not None))
                d = yield from rs.delete("k0")
                res.append(d)
            ws = _workers(3, body)
            _run([rs, *reps, *ws], [_ev(0.0, w) for w in ws], poke=[rs, *reps])
            out[f"{rc.name}/{wc.name}"] = len(res)
    return out


def data_sharded_store_strategies():
    """ShardedStore over four KVStores under hash, range and consistent-hash sharding; point operations
    and scatter_gather from concurrent drivers."""
    from happysimulator.components.datastore.kv_store import KVStore
    from happysimulator.components.datastore.sharded_store import (ConsistentHashSharding, HashSharding,
                                                                   RangeSharding, ShardedStore)
    out = {}
    for strat in (HashSharding(), RangeSharding(["g", "n", "t"]), ConsistentHashSharding(virtual_nodes=8, seed=5)):
        _seed(58)
        shards = [KVStore(f"s{i}", read_latency=HOSTILE[i] / 10, write_latency=HOSTILE[i + 4] / 10)
                  for i in range(4)]
        ss = ShardedStore("ss", shards, sharding_strategy=strat)
        res = []

        def body(w, ev, ss=ss, res=res):
            keys = [f"{c}{ev.context['o']}" for c in "azmhtbq"]
            for k in keys:
                yield from ss.put(k, k.upper())
            got = yield from ss.scatter_gather(keys + ["nope"])
            res.append(len(got))
            res.append((yield from ss.get(keys[0])))
            res.append((yield from ss.delete(keys[1])))
        ws = _workers(3, body)
        _run([ss, *shards, *ws], [_ev(0.0, w, o=i) for i, w in enumerate(ws)], poke=[ss, *shards])
        out[type(strat).__name__] = [len(res), sorted(ss.get_shard_sizes().values())]
    return out


def data_write_policies_flush_loop():
    """WriteThrough / WriteBack(0.1*3 s, 3 dirty) / WriteAround driving a KVStore from a periodic flusher
    whose period (1/3 s) is not a multiple of the policy's flush interval."""
    from happysimulator.components.datastore.kv_store import KVStore
    from happysimulator.components.datastore.write_policies import WriteAround, WriteBack, WriteThrough
    out = {}
    for pol in (WriteThrough(), WriteBack(flush_interval=H3, max_dirty=3), WriteAround()):
        _seed(59)
        kv = KVStore("kv", read_latency=NS, write_latency=THIRD / 10)
        buf = {}
        n = [0]

        def writer(w, ev, pol=pol, kv=kv, buf=buf):
            for j in range(9):
                k = f"k{j % 4}"
                buf[k] = j
                pol.on_write(k, j)
                if pol.should_write_through():
                    yield from kv.put(k, j)
                yield HOSTILE[j] / 10

        def flusher(w, ev, pol=pol, kv=kv, buf=buf, n=n):
            for _ in range(8):
                yield THIRD
                if pol.should_flush():
                    keys = pol.get_keys_to_flush()
                    for k in keys:
                        yield from kv.put(k, buf.get(k))
                    pol.on_flush(keys)
                    n[0] += len(keys)
        w1, f1 = _Proc("w", writer), _Proc("f", flusher)
        _run([kv, w1, f1], [_ev(0.0, w1), _ev(0.0, f1)], poke=[kv])
        out[type(pol).__name__] = [kv.stats.writes, n[0]]
    return out


# =====================================================================================================
# replication
# =====================================================================================================

def _kv(name, rl=THIRD / 100, wl=H3 / 100):
    from happysimulator.components.datastore.kv_store import KVStore
    return KVStore(name, read_latency=rl, write_latency=wl)


def _client(net, replies):
    """A client whose requests travel through the network and whose replies arrive on futures."""
    def body(w, ev):
        fut = SimFuture()
        md = ev.context
        e = net.send(w, md["to"], md["op"], payload={"key": md["key"], "value": md.get("value"),
                                                     "reply_future": fut})
        yield 0.0, [e]
        r = yield fut
        replies.append((w.name, md["op"], md["key"], w.now.nanoseconds, str(r)[:40]))
    return body


def data_primary_backup_modes():
    """client -> Network -> PrimaryNode -> two BackupNodes for ASYNC / SEMI_SYNC / SYNC; one backup link
    is ten times slower than the other, writes to the same key arrive at one instant and 1 ns apart,
    reads from the primary and from a (stale) backup; no end_time."""
    from happysimulator.components.network.network import Network
    from happysimulator.components.replication.primary_backup import BackupNode, PrimaryNode, ReplicationMode
    out = {}
    for mode in ReplicationMode:
        _seed(60)
        net = Network(name="net")
        b1 = BackupNode("b1", _kv("b1s", wl=THIRD / 10), net, primary=None)
        b2 = BackupNode("b2", _kv("b2s", wl=NS), net, primary=None, serve_reads=True)
        pr = PrimaryNode("pr", _kv("prs"), [b1, b2], net, mode=mode)
        b1._primary = b2._primary = pr
        replies = []
        cs = [_Proc(f"c{i}", _client(net, replies)) for i in range(3)]
        net.add_bidirectional_link(pr, b1, _link("pb1", H3 / 10))
        net.add_bidirectional_link(pr, b2, _link("pb2", H3))
        for c in cs:
            net.add_bidirectional_link(c, pr, _link(f"{c.name}p", THIRD / 10))
            net.add_bidirectional_link(c, b1, _link(f"{c.name}b1", NS))
        evs = []
        for i, c in enumerate(cs):
            evs.append(_ev(0.0, c, to=pr, op="Write", key="k", value=i))
            evs.append(_ev(NS, c, to=pr, op="Write", key=f"k{i}", value=i))
            evs.append(_ev(H3, c, to=pr, op="Read", key="k"))
            evs.append(_ev(H3, c, to=b1, op="Read", key="k"))
            evs.append(_ev(ONE001, c, to=pr, op="Write", key="k", value=10 + i))
        _run([net, pr, b1, b2, *cs], evs)
        out[mode.name] = [len(replies), pr.stats.acks_received]
    return out


def data_chain_replication_craq():
    """build_chain of four ChainNodes (with and without CRAQ); writes to one key from three clients at
    one instant, reads at the head, a middle node and the tail while the writes are in flight; link
    latencies decrease along the chain."""
    from happysimulator.components.network.network import Network
    from happysimulator.components.replication.chain_replication import build_chain
    out = {}
    for craq in (False, True):
        _seed(61)
        net = Network(name="net")
        nodes = build_chain(["n0", "n1", "n2", "n3"], net, lambda n: _kv(n, rl=THIRD / 100, wl=H3 / 100),
                            craq_enabled=craq)
        replies = []
        cs = [_Proc(f"c{i}", _client(net, replies)) for i in range(3)]
        lats = [ONE001 / 10, THIRD / 10, NS]
        for i in range(3):
            net.add_bidirectional_link(nodes[i], nodes[i + 1], _link(f"ch{i}", lats[i]))
        for n in nodes[:-1]:
            if n is not nodes[2]:
                net.add_bidirectional_link(n, nodes[3], _link(f"{n.name}t", H3 / 10))   # CRAQ read forwarding
        net.add_bidirectional_link(nodes[3], nodes[0], _link("ack", P7 / 10))
        for c in cs:
            for n in nodes:
                net.add_bidirectional_link(c, n, _link(f"{c.name}{n.name}", H3 / 100))
        evs = []
        for i, c in enumerate(cs):
            evs.append(_ev(0.0, c, to=nodes[0], op="Write", key="k", value=i))
            evs.append(_ev(H3 / 10, c, to=nodes[i], op="Read", key="k"))
            evs.append(_ev(THIRD / 10, c, to=nodes[3], op="Read", key="k"))
            evs.append(_ev(0.5, c, to=nodes[1], op="Write", key="bad", value=i))     # not the head
            evs.append(_ev(0.5 + NS, c, to=nodes[0], op="Write", key=f"k{i}", value=i))
            evs.append(_ev(ONE001, c, to=nodes[1 + i % 2], op="Read", key=f"k{i}"))
        _run([net, *nodes, *cs], evs, end=None if craq else 5.0)
        out[str(craq)] = [len(replies), nodes[0].stats.writes_received, nodes[3].stats.reads_served]
    return out


def data_multi_leader_anti_entropy():
    """Three LeaderNodes, conflicting writes to one key at one instant, every conflict resolver; the
    anti-entropy daemon runs with periods 0.1*3 and 1/3 s; one leader is partitioned away and healed."""
    from happysimulator.components.network.network import Network
    from happysimulator.components.replication.conflict_resolver import (CustomResolver, LastWriterWins,
                                                                          VectorClockMerge)
    from happysimulator.components.replication.multi_leader import LeaderNode
    out = {}
    resolvers = [("lww", LastWriterWins), ("vc", lambda: VectorClockMerge()),
                 ("vcm", lambda: VectorClockMerge(merge_fn=lambda k, a, b: a if str(a.value) >= str(b.value) else b)),
                 ("custom", lambda: CustomResolver(lambda k, vs: max(vs, key=lambda v: (v.timestamp, v.writer_id))))]
    for j, (nm, mk) in enumerate(resolvers):
        _seed(62)
        net = Network(name="net")
        ls = [LeaderNode(f"l{i}", _kv(f"s{i}"), net, conflict_resolver=mk(),
                         anti_entropy_interval=(H3, THIRD, P7)[i]) for i in range(3)]
        for l in ls:
            l.add_peers([x for x in ls if x is not l])
        _mesh(net, ls, lat=THIRD / 10)
        replies = []
        cs = [_Proc(f"c{i}", _client(net, replies)) for i in range(3)]
        for c, l in zip(cs, ls):
            net.add_bidirectional_link(c, l, _link(f"{c.name}{l.name}", NS))
        handle = {}

        def ctl(w, ev, net=net, ls=ls, handle=handle):
            if ev.context["op"] == "part":
                handle["h"] = net.partition([ls[2]], ls[:2])
            else:
                handle["h"].heal()
            return None
        k = _Proc("ctl", ctl)
        evs = []
        for i, c in enumerate(cs):
            evs.append(_ev(0.1, c, to=ls[i], op="Write", key="k", value=f"v{i}"))
            evs.append(_ev(0.1 + H3, c, to=ls[i], op="Read", key="k"))
            evs.append(_ev(ONE001, c, to=ls[i], op="Write", key="k", value=f"w{i}"))
            evs.append(_ev(2.0, c, to=ls[i], op="Write", key=f"only{i}", value=i))
        evs += [_ev(0.9, k, op="part"), _ev(2.5, k, op="heal")]
        _run([net, *ls, *cs, k], evs, end=5.0, starters=[l.get_anti_entropy_event for l in ls])
        out[nm] = [len(replies), sum(l.stats.anti_entropy_syncs for l in ls),
                   sum(l.stats.conflicts_detected for l in ls)]
    return out


def data_multi_leader_ns_anti_entropy():
    """anti_entropy_interval of 1 ns, finite end_time 2 us."""
    from happysimulator.components.network.network import Network
    from happysimulator.components.replication.multi_leader import LeaderNode
    _seed(63)
    net = Network(name="net")
    ls = [LeaderNode(f"l{i}", _kv(f"s{i}", rl=NS, wl=NS), net, anti_entropy_interval=NS) for i in range(2)]
    for l in ls:
        l.add_peers([x for x in ls if x is not l])
    _mesh(net, ls, lat=NS * 50)
    _run([net, *ls], end=2e-6, starters=[ls[0].get_anti_entropy_event])
    return {"syncs": ls[0].stats.anti_entropy_syncs}


# =====================================================================================================
# crdt
# =====================================================================================================

def data_crdt_store_gossip():
    """Three CRDTStores per CRDT type (GCounter, PNCounter, ORSet via Write events through the network,
    LWWRegister written directly with HLC timestamps); gossip every 1/3, 0.1*3 and 0.7 s; writes at the
    gossip instants; a partition in the middle."""
    from happysimulator.components.crdt import CRDTStore, GCounter, LWWRegister, ORSet, PNCounter
    from happysimulator.components.network.network import Network
    from happysimulator.core.logical_clocks import HLCTimestamp
    out = {}
    kinds = [("g", GCounter, [("increment", 2), ("increment", None)]),
             ("pn", PNCounter, [("increment", 3), ("decrement", 1)]),
             ("or", ORSet, [("add", "x"), ("remove", "x"), ("add", "y")]),
             ("lww", LWWRegister, [])]
    for nm, cls, ops in kinds:
        _seed(64)
        net = Network(name="net")
        ss = [CRDTStore(f"n{i}", net, crdt_factory=(lambda nid, cls=cls: cls(nid)),
                        gossip_interval=(THIRD, H3, P7)[i]) for i in range(3)]
        for s in ss:
            s.add_peers([x for x in ss if x is not s])
        _mesh(net, ss, lat=THIRD / 10)
        replies = []

        def client(w, ev, net=net, replies=replies):
            fut = SimFuture()
            md = ev.context
            e = net.send(w, md["to"], md["op"], payload={"key": md["key"], "value": md.get("value"),
                                                         "operation": md.get("operation", "set"),
                                                         "reply_future": fut})
            yield 0.0, [e]
            r = yield fut
            replies.append(str(r)[:40])

        def lww_write(w, ev, ss=ss):
            s = ss[ev.context["i"]]
            s.get_or_create("reg").set(ev.context["value"],
                                       HLCTimestamp(w.now.nanoseconds, ev.context["i"], s.name))
            return None
        cs = [_Proc(f"c{i}", client) for i in range(3)]
        for c, s in zip(cs, ss):
            net.add_bidirectional_link(c, s, _link(f"{c.name}{s.name}", NS))
        handle = {}

        def ctl(w, ev, net=net, ss=ss, handle=handle):
            if ev.context["op"] == "part":
                handle["h"] = net.partition([ss[0]], ss[1:])
            else:
                handle["h"].heal()
            return None
        k = _Proc("ctl", ctl)
        evs = []
        for i, c in enumerate(cs):
            for j, (op, val) in enumerate(ops):
                evs.append(_ev(THIRD * (j + 1), c, to=ss[i], op="Write", key="key", operation=op, value=val))
            evs.append(_ev(2.0, c, to=ss[i], op="Read", key="key"))
            if not ops:
                evs.append(_ev(THIRD * (i + 1), k, body=lww_write, i=i, value=f"v{i}"))
                evs.append(_ev(2.0, c, to=ss[i], op="Read", key="reg"))
        evs += [_ev(1.0, k, op="part"), _ev(1.0 + ONE001, k, op="heal")]
        _run([net, *ss, *cs, k], evs, end=4.0, starters=[s.get_gossip_event for s in ss])
        values = {str(s.crdts.get("key", s.crdts.get("reg")).value) for s in ss}
        out[nm] = [len(replies), sum(s.stats.gossip_sent for s in ss), len(values)]
    return out


def data_crdt_store_ns_gossip():
    """gossip_interval of 1 ns, finite end_time 2 us."""
    from happysimulator.components.crdt import CRDTStore, GCounter
    from happysimulator.components.network.network import Network
    _seed(65)
    net = Network(name="net")
    ss = [CRDTStore(f"n{i}", net, crdt_factory=lambda nid: GCounter(nid), gossip_interval=NS) for i in range(2)]
    for s in ss:
        s.add_peers([x for x in ss if x is not s])
    _mesh(net, ss, lat=NS * 50)
    _run([net, *ss], end=2e-6, starters=[ss[0].get_gossip_event])
    return {"sent": ss[0].stats.gossip_sent}


# =====================================================================================================
# consensus
# =====================================================================================================

class _ListStateMachine:
    """A user-defined StateMachine (the protocol of raft_state_machine.StateMachine)."""

    def __init__(self):
        self.applied = []

    def apply(self, command):
        self.applied.append(command)
        return len(self.applied)

    def snapshot(self):
        return list(self.applied)

    def restore(self, snapshot):
        self.applied = list(snapshot)


def _cluster(cls, n, net_lat, per_node=None, **kw):
    from happysimulator.components.network.network import Network
    net = Network(name="net")
    nodes = [cls(name=f"node-{i}", network=net, **kw, **(per_node(i) if per_node else {})) for i in range(n)]
    for nd in nodes:
        nd.set_peers([x for x in nodes if x is not nd])
    _mesh(net, nodes, lat=net_lat)
    return net, nodes


def data_raft_hostile_timeouts():
    """Three RaftNodes, (a) election timeout 0.1*3 .. 1/3 s with a heartbeat of 0.7 s (longer than the
    election timeout: followers keep timing out under a live leader), (b) election timeout 0.7 .. 1.001 s
    with a 0.1 s heartbeat; commands submitted at election instants, the leader partitioned away and
    healed."""
    from happysimulator.components.consensus.raft import RaftNode
    out = {}
    for cfg in (dict(election_timeout_min=H3, election_timeout_max=THIRD, heartbeat_interval=P7),
                dict(election_timeout_min=P7, election_timeout_max=ONE001, heartbeat_interval=H3 / 3)):
        out[str(cfg["heartbeat_interval"])[:5]] = _raft_run(RaftNode, cfg)
    return out


def _raft_run(RaftNode, cfg):
    _seed(70)
    net, nodes = _cluster(RaftNode, 3, THIRD / 10, **cfg)
    futs = []
    handle = {}

    def ctl(w, ev):
        op = ev.context["op"]
        leaders = [n for n in nodes if n.is_leader]
        if op == "submit":
            for n in (leaders or nodes[:1]):
                futs.append(n.submit({"op": "set", "key": f"k{len(futs)}", "value": len(futs)}))
        elif op == "part" and leaders:
            handle["h"] = net.partition([leaders[0]], [n for n in nodes if n is not leaders[0]])
        elif op == "heal" and "h" in handle:
            handle.pop("h").heal()
        return None
    k = _Proc("ctl", ctl)
    evs = [_ev(t, k, op="submit") for t in (H3, THIRD, 1.0, ONE001, 2.0, 3.5)]
    evs += [_ev(1.5, k, op="part"), _ev(2.5, k, op="heal")]
    _run([net, *nodes, k], evs, end=5.0, starters=[n.start for n in nodes])
    return {"terms": [n.current_term for n in nodes], "committed": [n.stats.commands_committed for n in nodes],
            "resolved": sum(f.is_resolved for f in futs)}


def data_raft_equal_timeouts_contention():
    """Five RaftNodes with election_timeout_min == max (every node times out at the same instant: split
    votes, repeated elections), 1 ns links, then a single-node cluster; also a 1 ns election timeout with
    a 2 us end_time."""
    from happysimulator.components.consensus.raft import RaftNode
    _seed(71)
    out = {}
    net, nodes = _cluster(RaftNode, 5, NS, election_timeout_min=THIRD, election_timeout_max=THIRD,
                          heartbeat_interval=H3 / 3)
    _run([net, *nodes], end=4.0, starters=[n.start for n in nodes])
    out["eq"] = sorted(n.current_term for n in nodes)
    net, nodes = _cluster(RaftNode, 1, NS, election_timeout_min=ONE001, election_timeout_max=ONE001 + NS,
                          heartbeat_interval=THIRD)
    k = _Proc("ctl", lambda w, ev: nodes[0].submit({"op": "set", "key": "k", "value": 1}) and None)
    _run([net, *nodes, k], [_ev(1.5, k), _ev(1.5 + NS, k)], end=3.0, starters=[n.start for n in nodes])
    out["single"] = nodes[0].stats.commands_committed
    net, nodes = _cluster(RaftNode, 3, NS * 10, election_timeout_min=NS, election_timeout_max=NS,
                          heartbeat_interval=NS * 5)
    _run([net, *nodes], end=2e-6, starters=[n.start for n in nodes])
    out["ns"] = max(n.current_term for n in nodes)
    return out


def data_paxos_dueling_proposers():
    """Three PaxosNodes proposing different values at the same instant over lossy links, retry delay 1/3 s
    (nacks -> higher ballots), a late proposer after the decision."""
    from happysimulator.components.consensus.paxos import PaxosNode
    out = {}
    for loss in (0.0, 0.2):
        _seed(72)
        from happysimulator.components.network.network import Network
        net = Network(name="net")
        nodes = [PaxosNode(name=f"p{i}", network=net, retry_delay=THIRD) for i in range(3)]
        for nd in nodes:
            nd.set_peers([x for x in nodes if x is not nd])
        _mesh(net, nodes, lat=H3 / 10, packet_loss_rate=loss)
        futs = []

        def propose(w, ev, nodes=nodes, futs=futs):
            n = nodes[ev.context["i"]]
            futs.append(n.propose(f"value-{ev.context['i']}"))
            return n.start_phase1()
        k = _Proc("ctl", propose)
        evs = [_ev(0.1, k, i=i) for i in range(3)] + [_ev(0.1 + NS, k, i=0), _ev(3.0, k, i=2)]
        _run([net, *nodes, k], evs, end=6.0)
        out[str(loss)] = [sorted({str(n.decided_value) for n in nodes}), sum(f.is_resolved for f in futs)]
    return out


def data_multi_paxos_heartbeats():
    """Three MultiPaxosNodes all starting phase 1 at one instant, heartbeat 0.1*3 s, lease 0.7 s,
    commands submitted to leader and followers, old leader partitioned."""
    from happysimulator.components.consensus.multi_paxos import MultiPaxosNode
    _seed(73)
    net, nodes = _cluster(MultiPaxosNode, 3, THIRD / 10, leader_lease_timeout=P7, heartbeat_interval=H3,
                          per_node=lambda i: {"state_machine": _ListStateMachine()})
    futs = []
    handle = {}

    def ctl(w, ev):
        op = ev.context["op"]
        if op == "submit":
            for n in nodes:
                futs.append(n.submit({"op": "set", "key": "k", "value": len(futs)}))
        elif op == "part":
            ld = [n for n in nodes if n.is_leader] or nodes[:1]
            handle["h"] = net.partition([ld[0]], [n for n in nodes if n is not ld[0]])
        elif op == "restart":
            return nodes[1].start()
        else:
            handle.pop("h").heal()
        return None
    k = _Proc("ctl", ctl)
    evs = [_ev(t, k, op="submit") for t in (0.5, H3 * 3, 2.0, 3.0)]
    evs += [_ev(1.2, k, op="part"), _ev(1.5, k, op="restart"), _ev(2.5, k, op="heal")]
    _run([net, *nodes, k], evs, end=5.0, starters=[n.start for n in nodes])
    return {"leaders": [n.is_leader for n in nodes], "committed": [n.stats.commands_committed for n in nodes],
            "resolved": sum(f.is_resolved for f in futs)}


def data_flexible_paxos_quorums():
    """Four FlexiblePaxosNodes with asymmetric quorums (Q1=4,Q2=1), (Q1=2,Q2=3), (Q1=3,Q2=2); heartbeat
    1/3 s; two nodes start phase 1 at the same instant."""
    from happysimulator.components.consensus.flexible_paxos import FlexiblePaxosNode
    from happysimulator.components.network.network import Network
    out = {}
    for q1, q2 in ((4, 1), (2, 3), (3, 2)):
        _seed(74)
        net = Network(name="net")
        nodes = [FlexiblePaxosNode(name=f"f{i}", network=net, phase1_quorum=q1, phase2_quorum=q2,
                                   heartbeat_interval=THIRD) for i in range(4)]
        for nd in nodes:
            nd.set_peers([x for x in nodes if x is not nd])
        _mesh(net, nodes, lat=H3 / 10)
        futs = []

        def ctl(w, ev, nodes=nodes, futs=futs):
            for n in nodes:
                futs.append(n.submit({"op": "set", "key": "k", "value": len(futs)}))
            return None
        k = _Proc("ctl", ctl)
        evs = [_ev(t, k) for t in (0.0, THIRD, 1.0, 2.0)]
        _run([net, *nodes, k], evs, end=4.0, starters=[nodes[0].start, nodes[3].start])
        out[f"{q1}/{q2}"] = [[n.is_leader for n in nodes], sum(f.is_resolved for f in futs)]
    return out


def data_leader_election_strategies():
    """Four LeaderElection entities per strategy (bully, ring, randomized); election timeout 0.1*3 s with
    a heartbeat interval of 1/3 s (longer than the timeout); the leader is partitioned away and healed."""
    from happysimulator.components.consensus.election_strategies import (BullyStrategy, RandomizedStrategy,
                                                                         RingStrategy)
    from happysimulator.components.consensus.leader_election import LeaderElection
    from happysimulator.components.network.network import Network
    out = {}
    for mk in (BullyStrategy, RingStrategy, lambda: RandomizedStrategy(ballot_range=7)):
        _seed(75)
        net = Network(name="net")
        nodes = [LeaderElection(name=f"node-{i}", network=net, strategy=mk(), election_timeout=H3,
                                heartbeat_interval=THIRD) for i in range(4)]
        for nd in nodes:
            for x in nodes:
                nd.add_member(x)
        _mesh(net, nodes, lat=THIRD / 10)
        handle = {}

        def ctl(w, ev, net=net, nodes=nodes, handle=handle):
            if ev.context["op"] == "part":
                ld = [n for n in nodes if n.is_leader] or nodes[-1:]
                handle["h"] = net.partition([ld[0]], [n for n in nodes if n is not ld[0]])
            else:
                handle.pop("h").heal()
            return None
        k = _Proc("ctl", ctl)
        _run([net, *nodes, k], [_ev(1.5, k, op="part"), _ev(2.5 + NS, k, op="heal")], end=4.0,
             starters=[n.start for n in nodes])
        out[type(nodes[0]._strategy).__name__] = [sorted({str(n.current_leader) for n in nodes}),
                                                  sum(n.stats.elections_started for n in nodes)]
    return out


def data_membership_swim():
    """Five MembershipProtocol nodes, probe interval 0.1*3 s (ack timeout = half of it), suspicion timeout
    0.7 s, links slower than the ack timeout for one node (indirect probes), one node partitioned until it
    is declared dead, then healed."""
    from happysimulator.components.consensus.membership import MembershipProtocol
    from happysimulator.components.network.network import Network
    _seed(76)
    net = Network(name="net")
    nodes = [MembershipProtocol(name=f"m{i}", network=net, probe_interval=H3, suspicion_timeout=P7,
                                indirect_probe_count=2, phi_threshold=3.0) for i in range(5)]
    for nd in nodes:
        for x in nodes:
            nd.add_member(x)
    for i, a in enumerate(nodes):
        for b in nodes[i + 1:]:
            slow = a is nodes[4] or b is nodes[4]
            net.add_bidirectional_link(a, b, _link(f"l{a.name}{b.name}", H3 if slow else THIRD / 100))
    handle = {}

    def ctl(w, ev):
        if ev.context["op"] == "part":
            handle["h"] = net.partition([nodes[0]], nodes[1:])
        else:
            handle.pop("h").heal()
        return None
    k = _Proc("ctl", ctl)
    _run([net, *nodes, k], [_ev(1.0, k, op="part"), _ev(4.0, k, op="heal")], end=6.0,
         starters=[n.start for n in nodes])
    return {"dead": [len(n.dead_members) for n in nodes], "probes": sum(n.stats.probes_sent for n in nodes)}


def data_phi_accrual_heartbeats():
    """PhiAccrualDetector fed from a heartbeat sender whose period drifts over hostile values and then
    stops; a monitor polls phi every 1/3 s through the simulation clock."""
    from happysimulator.components.consensus.phi_accrual_detector import PhiAccrualDetector
    _seed(77)
    det = PhiAccrualDetector(threshold=4.0, max_sample_size=5, min_std=0.01, initial_interval=H3)
    seen = []

    def sender(w, ev):
        for i in range(12):
            det.heartbeat(w.now.to_seconds())
            yield HOSTILE[i % 4]

    def monitor(w, ev):
        for _ in range(30):
            seen.append((det.is_available(w.now.to_seconds()), round(min(det.phi(w.now.to_seconds()), 99.0), 3)))
            yield THIRD
    s, m = _Proc("sender", sender), _Proc("monitor", monitor)
    _run([s, m], [_ev(0.0, s), _ev(0.0, m)])
    return {"unavailable": sum(1 for a, _ in seen if not a), "hb": det.stats.heartbeats_received
            if hasattr(det.stats, "heartbeats_received") else len(seen)}


def data_distributed_lock_leases():
    """DistributedLock with a 0.1*3 s lease: holders that release before, exactly at and after the lease
    expiry, waiters woken by release and by expiry, max_waiters rejections; requests arrive as events
    (LockAcquireRequest / LockReleaseRequest) and through the direct API; the lease-expiry events the
    lock prepares are scheduled by the caller, as in the repository's examples."""
    from happysimulator.components.consensus.distributed_lock import DistributedLock
    out = {}
    for lease, end in ((H3, None), (NS, 3.0), (ONE001, 3.0)):
        _seed(78)
        lock = DistributedLock("lock", lease_duration=lease, max_waiters=3)
        got = []

        def pending(lock=lock):
            e = getattr(lock, "_pending_expiry", None)
            lock._pending_expiry = None
            return [e] if e is not None else []

        def client(w, ev, lock=lock, got=got, pending=pending):
            fut = lock.acquire(ev.context["name"], w.name)
            yield 0.0, pending()
            grant = yield fut
            if grant is None:
                got.append((w.name, "rejected"))
                return
            got.append((w.name, grant.fencing_token, w.now.nanoseconds))
            yield 0.0, pending()           # the expiry prepared when a waiter was granted
            yield ev.context["hold"]
            lock.release(ev.context["name"], grant.fencing_token)
            yield 0.0, pending()

        def by_event(w, ev, lock=lock, got=got, pending=pending):
            fut = SimFuture()
            req = Event(time=w.now, event_type="LockAcquireRequest", target=lock,
                        context={"metadata": {"lock_name": "ev", "requester": w.name}, "reply_future": fut})
            yield 0.0, [req]
            grant = yield fut
            got.append((w.name, getattr(grant, "fencing_token", None)))
            yield 0.0, pending()
            yield ev.context["hold"]
            return [Event(time=w.now, event_type="LockReleaseRequest", target=lock,
                          context={"metadata": {"lock_name": "ev", "fencing_token": grant.fencing_token}})]
        ws = _workers(6, client)
        es = [_Proc(f"e{i}", by_event) for i in range(3)]
        holds = (lease / 2, lease, lease + NS, lease * 3, NS, THIRD)
        evs = [_ev(0.0, w, name="L", hold=holds[i]) for i, w in enumerate(ws)]
        evs += [_ev(H3, w, name="M", hold=holds[(i + 2) % 6]) for i, w in enumerate(ws[:3])]
        evs += [_ev(THIRD, e, hold=(NS, lease, THIRD)[i]) for i, e in enumerate(es)]
        _run([lock, *ws, *es], evs, end=end)
        out[f"{lease:.3g}"] = [len(got), lock.stats.total_expirations, lock.stats.total_rejections]
    return out


# =====================================================================================================
# cross-family flows, boundary instants, far-from-epoch clocks, nanosecond periods
# =====================================================================================================

def data_stream_watermark_boundaries():
    """Process events scheduled exactly on (and 1 ns around) the instants of the watermark chain, which
    the processor derives as from_seconds(now + interval) from the first event; interval 0.1*3 s,
    tumbling windows of 1/3 s, side output for late events."""
    from happysimulator.components.streaming.stream_processor import (LateEventPolicy, StreamProcessor,
                                                                      TumblingWindow)
    _seed(80)
    sink, side = Sink("sink"), Sink("side")
    sp = StreamProcessor("sp", TumblingWindow(THIRD), len, sink, allowed_lateness_s=NS,
                         late_event_policy=LateEventPolicy.SIDE_OUTPUT, side_output=side,
                         watermark_interval_s=H3)
    t = _t(0.125)
    evs = [Event(time=t, event_type="Process", target=sp, context={"key": "k", "value": 0})]
    for k in range(1, 14):
        t = Instant.from_seconds(t.to_seconds() + H3)
        for d in (-1, 0, 0, 1):
            evs.append(Event(time=Instant(t.nanoseconds + d), event_type="Process", target=sp,
                             context={"key": f"k{k % 2}", "value": k,
                                      "event_time_s": t.to_seconds() - (THIRD if k % 5 == 0 else 0.0)}))
    _run([sp, sink, side], evs, end=6.0)
    return {"w": sp.stats.windows_emitted, "late": sp.stats.late_events, "side": side.events_received}


def data_raft_heartbeat_meets_timeout():
    """Election timeout == heartbeat interval + one-way link latency: every AppendEntries reaches the
    followers at the very instant their election timer fires."""
    from happysimulator.components.consensus.raft import RaftNode
    _seed(81)
    lat = THIRD / 10
    hb = H3
    net, nodes = _cluster(RaftNode, 3, lat, election_timeout_min=hb + lat, election_timeout_max=hb + lat,
                          heartbeat_interval=hb, per_node=lambda i: {"state_machine": _ListStateMachine()})
    futs = []

    def ctl(w, ev):
        for n in nodes:
            if n.is_leader:
                futs.append(n.submit({"op": "set", "key": "k", "value": len(futs)}))
        return None
    k = _Proc("ctl", ctl)
    _run([net, *nodes, k], [_ev(x, k) for x in (1.0, 1.0 + hb, 2.0, 3.0)], end=5.0,
         starters=[n.start for n in nodes])
    return {"terms": [n.current_term for n in nodes], "resolved": sum(f.is_resolved for f in futs)}


def data_pipeline_topic_queue_store():
    """Multi-step flow: source -> Topic -> bridge subscriber -> MessageQueue -> consumers -> CachedStore /
    KVStore -> sink.  The early steps (topic fan-out 1/3 s per subscriber) take longer than the later
    visibility timeout (0.1*3 s), so redeliveries overlap first deliveries."""
    from happysimulator.components.datastore.cached_store import CachedStore
    from happysimulator.components.datastore.eviction_policies import LRUEviction
    from happysimulator.components.datastore.kv_store import KVStore
    from happysimulator.components.messaging.dlq import DeadLetterQueue
    from happysimulator.components.messaging.message_queue import MessageQueue
    from happysimulator.components.messaging.topic import Topic
    _seed(82)
    sink = Sink("sink")
    kv = KVStore("kv", read_latency=THIRD / 10, write_latency=P7 / 10)
    cache = CachedStore("cache", kv, 3, LRUEviction(), cache_read_latency=NS, write_through=True)
    dlq = DeadLetterQueue("dlq", capacity=5, retention_period=ONE001)
    q = MessageQueue("q", delivery_latency=THIRD / 10, redelivery_delay=H3 / 3, max_redeliveries=2,
                     dead_letter_queue=dlq)
    topic = Topic("topic", delivery_latency=THIRD)

    def bridge(w, ev):
        if ev.event_type != "topic_message":
            return None
        yield from q.publish(ev.context["payload"])
        return [Event(time=w.now, event_type="poll", target=q)]

    def audit(w, ev):
        return None

    def consumer(w, ev):
        if ev.event_type != "message_delivery":
            return None
        mid = ev.context["message_id"]
        n = ev.context["payload"].context["n"]
        if n % 4 == 3 and ev.context["delivery_count"] == 1:
            yield H3                                    # too slow: the visibility timeout passes
            r = q.schedule_redelivery(mid)
            return [r] if r is not None else None
        yield from cache.put(f"k{n % 5}", n)
        v = yield from cache.get(f"k{(n + 1) % 5}")
        q.acknowledge(mid)
        return [Event(time=w.now, event_type="stored", target=sink, context={"v": v})]
    b, a = _Proc("bridge", bridge), _Proc("audit", audit)
    cs = [_Proc(f"c{i}", consumer) for i in range(2)]
    topic.subscribe(a)
    topic.subscribe(b)
    for c in cs:
        q.subscribe(c)

    def ctx(t, n):
        return {"created_at": t, "payload": _payload(sink, n)}
    src = _src(5.0, topic, "publish", ctx, 3.0)
    poller = Source.constant(rate=7.0, target=q, event_type="poll", name="poller", stop_after=6.0)
    _run([topic, q, dlq, kv, cache, sink, a, b, *cs], sources=[src, poller], end=8.0, poke=[kv, cache, dlq])
    return {"stored": sink.events_received, "redelivered": q.stats.messages_redelivered,
            "dead": q.stats.messages_dead_lettered}


def data_pipeline_log_group_stream():
    """Multi-step flow: producers -> EventLog -> ConsumerGroup.poll -> StreamProcessor -> sink, with the
    rebalance (1.001 s) longer than the retention sweep period (1/3 s) and the watermark period (0.1*3 s)."""
    from happysimulator.components.streaming.consumer_group import ConsumerGroup, StickyAssignment
    from happysimulator.components.streaming.event_log import EventLog, TimeRetention
    from happysimulator.components.streaming.stream_processor import SlidingWindow, StreamProcessor
    _seed(83)
    sink = Sink("sink")
    log = EventLog("log", num_partitions=2, retention_policy=TimeRetention(2.0), append_latency=THIRD / 10,
                   read_latency=NS, retention_check_interval=THIRD)
    grp = ConsumerGroup("grp", log, assignment_strategy=StickyAssignment(), rebalance_delay=ONE001,
                        poll_latency=H3 / 10)
    sp = StreamProcessor("sp", SlidingWindow(P7, THIRD), sum, sink, watermark_interval_s=H3)

    def consumer(w, ev):
        yield from grp.join(w.name, w)
        offs = {}
        for _ in range(10):
            recs = yield from grp.poll(w.name, max_records=4)
            out = []
            for r in recs:
                offs[r.partition] = r.offset + 1
                out.append(Event(time=w.now, event_type="Process", target=sp,
                                 context={"key": r.key, "value": r.value, "event_time_s": r.timestamp_s
                                          if hasattr(r, "timestamp_s") else w.now.to_seconds()}))
            if offs:
                yield from grp.commit(w.name, dict(offs))
            yield THIRD, out
    cs = [_Proc(f"c{i}", consumer) for i in range(2)]

    def ctx(t, n):
        return {"created_at": t, "key": f"u{n % 3}", "value": n}
    src = _src(8.0, log, "Append", ctx, 4.0)
    _run([log, grp, sp, sink, *cs], [_ev(0.0, cs[0]), _ev(H3, cs[1])], sources=[src], end=7.0)
    return {"windows": sp.stats.windows_emitted, "polled": grp.stats.records_polled}


def data_lease_shorter_than_transaction():
    """A DistributedLock lease (0.1*3 s) guarding a Database transaction that takes longer than the lease
    (three statements of 1/3 s on a pool of one connection): the lease expires mid-transaction, the next
    holder starts while the first still works, everybody also takes a local Mutex and a Semaphore."""
    from happysimulator.components.consensus.distributed_lock import DistributedLock
    from happysimulator.components.datastore.database import Database
    from happysimulator.components.sync.mutex import Mutex
    from happysimulator.components.sync.semaphore import Semaphore
    _seed(84)
    lock = DistributedLock("lock", lease_duration=H3)
    db = Database("db", max_connections=1, query_latency=THIRD, connection_latency=NS, commit_latency=P7 / 10)
    mu, sem = Mutex("mu"), Semaphore("sem", 2)
    done = []

    def pending():
        e = getattr(lock, "_pending_expiry", None)
        lock._pending_expiry = None
        return [e] if e is not None else []

    def worker(w, ev):
        yield from sem.acquire(1)
        fut = lock.acquire("row", w.name)
        yield 0.0, pending()
        grant = yield fut
        yield 0.0, pending()
        yield from mu.acquire(w.name)
        tx = yield from db.begin_transaction()
        for i in range(3):
            yield from tx.execute(f"UPDATE t SET x = {i}")
        yield from tx.commit()
        mu.release()
        released = lock.release("row", grant.fencing_token)     # False once the lease has expired
        yield 0.0, pending()
        sem.release(1)
        done.append((w.name, released, w.now.nanoseconds))
    ws = _workers(4, worker)
    _run([lock, db, mu, sem, *ws], [_ev(0.0, w) for w in ws[:3]] + [_ev(H3, ws[3])], poke=[db, mu, sem])
    return {"done": len(done), "expired": lock.stats.total_expirations}


def data_far_from_epoch_periodics():
    """Simulations that start 1.7e9 s after the epoch (a wall-clock timestamp used as start_time), where a
    float second has a resolution of 238 ns: every periodic component of these families with truncating
    millisecond-scale periods."""
    from happysimulator.components.consensus.membership import MembershipProtocol
    from happysimulator.components.consensus.raft import RaftNode
    from happysimulator.components.crdt import CRDTStore, GCounter
    from happysimulator.components.network.network import Network
    from happysimulator.components.replication.multi_leader import LeaderNode
    from happysimulator.components.streaming.event_log import EventLog, TimeRetention
    from happysimulator.components.streaming.stream_processor import StreamProcessor, TumblingWindow
    _seed(85)
    t0 = Instant.from_seconds(1_700_000_000)
    at = lambda x: Instant(t0.nanoseconds + int(x * 1e9))
    out = {}
    # streaming
    sink = Sink("sink")
    log = EventLog("log", num_partitions=1, retention_policy=TimeRetention(P7 / 100), append_latency=THIRD / 1000,
                   retention_check_interval=H3 / 100)
    sp = StreamProcessor("sp", TumblingWindow(THIRD / 100), len, sink, watermark_interval_s=H3 / 100)
    evs = []
    for i in range(40):
        evs.append(Event(time=at(i * THIRD / 100), event_type="Append", target=log, context={"key": "k", "value": i}))
        evs.append(Event(time=at(i * THIRD / 100), event_type="Process", target=sp, context={"key": "k", "value": i}))
    _run([log, sp, sink], evs, start=t0, end=at(0.3))
    out["stream"] = [log.stats.records_expired, sp.stats.windows_emitted]
    # replication + crdt
    net = Network(name="net")
    ls = [LeaderNode(f"l{i}", _kv(f"s{i}", rl=NS, wl=THIRD / 1000), net, anti_entropy_interval=H3 / 100)
          for i in range(2)]
    cs = [CRDTStore(f"c{i}", net, crdt_factory=lambda nid: GCounter(nid), gossip_interval=THIRD / 100)
          for i in range(2)]
    for grp in (ls, cs):
        for x in grp:
            x.add_peers([y for y in grp if y is not x])
        _mesh(net, grp, lat=P7 / 1000)
    evs = [_msg(at(0.01 * i), net, ls[0], ls[1], "Write", key="k", value=i) for i in range(5)]
    evs += [_msg(at(0.01 * i), net, cs[0], cs[1], "Write", key="k", value=1, operation="increment")
            for i in range(5)]
    _run([net, *ls, *cs], evs, start=t0, end=at(0.3),
         starters=[x.get_anti_entropy_event for x in ls] + [x.get_gossip_event for x in cs])
    out["repl"] = [sum(x.stats.anti_entropy_syncs for x in ls), sum(x.stats.gossip_sent for x in cs)]
    # consensus
    net, nodes = _cluster(RaftNode, 3, THIRD / 1000, election_timeout_min=H3 / 10, election_timeout_max=THIRD / 10,
                          heartbeat_interval=P7 / 100)
    ms = [MembershipProtocol(name=f"m{i}", network=net, probe_interval=H3 / 100, suspicion_timeout=P7 / 100)
          for i in range(3)]
    for m in ms:
        for x in ms:
            m.add_member(x)
    _mesh(net, ms, lat=THIRD / 1000)
    _run([net, *nodes, *ms], start=t0, end=at(0.5), starters=[n.start for n in nodes] + [m.start for m in ms])
    out["cons"] = [max(n.current_term for n in nodes), sum(m.stats.probes_sent for m in ms)]
    return out


def data_ns_period_consensus():
    """Periodic consensus components with periods of a few nanoseconds and an end_time of 1-2 us: Raft
    heartbeats, Multi-/Flexible-Paxos heartbeats, membership probes (ack timeout = probe_interval * 0.5
    truncates), leader-election checks."""
    from happysimulator.components.consensus.election_strategies import RingStrategy
    from happysimulator.components.consensus.flexible_paxos import FlexiblePaxosNode
    from happysimulator.components.consensus.leader_election import LeaderElection
    from happysimulator.components.consensus.membership import MembershipProtocol
    from happysimulator.components.consensus.multi_paxos import MultiPaxosNode
    from happysimulator.components.network.network import Network
    _seed(86)
    out = {}
    net, nodes = _cluster(MultiPaxosNode, 3, NS * 7, leader_lease_timeout=NS * 20, heartbeat_interval=NS)
    _run([net, *nodes], end=2e-6, starters=[nodes[0].start])
    out["mp"] = [n.is_leader for n in nodes]
    net = Network(name="net")
    fl = [FlexiblePaxosNode(name=f"f{i}", network=net, phase1_quorum=2, phase2_quorum=2,
                            heartbeat_interval=NS * 3) for i in range(3)]
    for nd in fl:
        nd.set_peers([x for x in fl if x is not nd])
    _mesh(net, fl, lat=NS * 2)
    _run([net, *fl], end=1e-6, starters=[fl[0].start, fl[2].start])
    out["fp"] = [n.is_leader for n in fl]
    net = Network(name="net")
    ms = [MembershipProtocol(name=f"m{i}", network=net, probe_interval=NS * 3, suspicion_timeout=NS * 10)
          for i in range(3)]
    for m in ms:
        for x in ms:
            m.add_member(x)
    _mesh(net, ms, lat=NS * 4)
    _run([net, *ms], end=1e-6, starters=[m.start for m in ms])
    out["swim"] = sum(m.stats.probes_sent for m in ms)
    net = Network(name="net")
    les = [LeaderElection(name=f"node-{i}", network=net, strategy=RingStrategy(), election_timeout=NS * 3,
                          heartbeat_interval=NS * 2) for i in range(3)]
    for nd in les:
        for x in les:
            nd.add_member(x)
    _mesh(net, les, lat=NS * 5)
    _run([net, *les], end=1e-6, starters=[n.start for n in les])
    out["le"] = sorted({str(n.current_leader) for n in les})
    return out


def data_far_from_epoch_submicro_periods():
    """start_time = 1.7e9 s (float seconds resolve 238 ns there) and periods of 100 ns, first tick 5 ns
    after the start: EventLog retention sweep, StreamProcessor watermark, LeaderNode anti-entropy,
    CRDTStore gossip.  End 20 us after the start."""
    from happysimulator.components.crdt import CRDTStore, GCounter
    from happysimulator.components.network.network import Network
    from happysimulator.components.replication.multi_leader import LeaderNode
    from happysimulator.components.streaming.event_log import EventLog, SizeRetention
    from happysimulator.components.streaming.stream_processor import StreamProcessor, TumblingWindow
    _seed(87)
    t0 = Instant.from_seconds(1_700_000_000)
    at = lambda ns: Instant(t0.nanoseconds + ns)
    p = 100 * NS
    sink = Sink("sink")
    log = EventLog("log", num_partitions=1, retention_policy=SizeRetention(1), append_latency=5 * NS,
                   retention_check_interval=p)
    sp = StreamProcessor("sp", TumblingWindow(10 * p), len, sink, watermark_interval_s=p)
    net = Network(name="net")
    ls = [LeaderNode(f"l{i}", _kv(f"s{i}", rl=NS, wl=NS), net, anti_entropy_interval=p) for i in range(2)]
    cs = [CRDTStore(f"c{i}", net, crdt_factory=lambda nid: GCounter(nid), gossip_interval=p) for i in range(2)]
    for grp in (ls, cs):
        for x in grp:
            x.add_peers([y for y in grp if y is not x])
        _mesh(net, grp, lat=NS * 50)
    evs = [Event(time=at(0), event_type="Append", target=log, context={"key": "k", "value": 0}),
           Event(time=at(5), event_type="Process", target=sp, context={"key": "k", "value": 0}),
           Event(time=at(5), event_type="AntiEntropy", target=ls[0], daemon=True),
           Event(time=at(5), event_type="GossipTick", target=cs[0], daemon=True)]
    _run([log, sp, sink, net, *ls, *cs], evs, start=t0, end=at(20_000))
    return {"syncs": ls[0].stats.anti_entropy_syncs, "gossip": cs[0].stats.gossip_sent}


def data_raft_lossy_jittery_links():
    """Three RaftNodes over links with 30 % loss, exponential jitter and a bandwidth limit; election
    timeout 1/3 .. 0.7 s, heartbeat 0.1 s; commands submitted every 0.1*3 s."""
    from happysimulator.components.consensus.raft import RaftNode
    from happysimulator.components.network.network import Network
    _seed(88)
    net = Network(name="net")
    nodes = [RaftNode(name=f"node-{i}", network=net, election_timeout_min=THIRD, election_timeout_max=P7,
                      heartbeat_interval=H3 / 3) for i in range(3)]
    for nd in nodes:
        nd.set_peers([x for x in nodes if x is not nd])
    _mesh(net, nodes, lat=THIRD / 100, packet_loss_rate=0.3, jitter=ExponentialLatency(H3 / 100),
          bandwidth_bps=1e6 / 3)
    futs = []

    def ctl(w, ev):
        for n in nodes:
            if n.is_leader:
                futs.append(n.submit({"op": "set", "key": f"k{len(futs) % 3}", "value": len(futs)}))
        return None
    k = _Proc("ctl", ctl)
    _run([net, *nodes, k], [_ev(1.0 + i * H3, k) for i in range(10)], end=6.0,
         starters=[n.start for n in nodes])
    return {"terms": [n.current_term for n in nodes], "resolved": sum(f.is_resolved for f in futs)}


def data_paxos_minority_partition():
    """Five PaxosNodes; a proposer cut off with one peer (minority) proposes, the majority side decides
    another value, the partition heals and the minority proposer proposes again; retry delay 0.1*3 s."""
    from happysimulator.components.consensus.paxos import PaxosNode
    from happysimulator.components.network.network import Network
    _seed(89)
    net = Network(name="net")
    nodes = [PaxosNode(name=f"p{i}", network=net, retry_delay=H3) for i in range(5)]
    for nd in nodes:
        nd.set_peers([x for x in nodes if x is not nd])
    _mesh(net, nodes, lat=THIRD / 10)
    handle = {}
    futs = []

    def ctl(w, ev):
        op = ev.context["op"]
        if op == "part":
            handle["h"] = net.partition(nodes[:2], nodes[2:])
        elif op == "heal":
            handle.pop("h").heal()
        else:
            n = nodes[ev.context["i"]]
            futs.append(n.propose(f"v{ev.context['i']}"))
            return n.start_phase1()
        return None
    k = _Proc("ctl", ctl)
    evs = [_ev(0.0, k, op="part"), _ev(0.1, k, op="propose", i=0), _ev(0.1, k, op="propose", i=4),
           _ev(1.0, k, op="heal"), _ev(1.0 + NS, k, op="propose", i=0), _ev(1.0 + NS, k, op="propose", i=1)]
    _run([net, *nodes, k], evs, end=5.0)
    return {"decided": sorted({str(n.decided_value) for n in nodes}), "resolved": sum(f.is_resolved for f in futs)}


def data_sync_edge_calls():
    """Edge calls on the sync primitives: notify with nobody waiting, wait_for whose predicate is already
    true and with a zero timeout, try_acquire on held primitives, a barrier of one party, releases that
    wake several waiters at one instant."""
    from happysimulator.components.sync.barrier import Barrier
    from happysimulator.components.sync.condition import Condition
    from happysimulator.components.sync.mutex import Mutex
    from happysimulator.components.sync.rwlock import RWLock
    from happysimulator.components.sync.semaphore import Semaphore
    _seed(90)
    mu, sem, rw, b1 = Mutex("mu"), Semaphore("sem", 2), RWLock("rw"), Barrier("b1", 1)
    lock = Mutex("cl")
    cond = Condition("cond", lock)
    res = []

    def solo(w, ev):
        yield from lock.acquire(w.name)
        cond.notify()
        cond.notify_all()
        ok = yield from cond.wait_for(lambda: True, timeout=0.0)
        res.append(ok)
        lock.release()
        i = yield from b1.wait()
        res.append(i)
        res.append((mu.try_acquire("x"), mu.try_acquire("y"), sem.try_acquire(2), sem.try_acquire(1),
                    rw.try_acquire_write(), rw.try_acquire_read()))
        yield THIRD
        mu.release()
        sem.release(2)                       # wakes both one-permit waiters at this instant
        rw.release_write()                   # wakes all parked readers at this instant

    def waiter(w, ev):
        yield from mu.acquire(w.name)
        mu.release()
        yield from sem.acquire(1)
        yield from rw.acquire_read()
        yield NS
        rw.release_read()
        sem.release(1)
        res.append(w.now.nanoseconds)

    def timed_out(w, ev):
        yield from lock.acquire(w.name)
        ok = yield from cond.wait_for(lambda: False, timeout=0.0)
        res.append(ok)
        lock.release()
    s = _Proc("solo", solo)
    ws = _workers(3, waiter)
    tmo = _Proc("tmo", timed_out)
    _run([mu, sem, rw, b1, lock, cond, s, tmo, *ws], [_ev(0.0, s), _ev(H3, tmo)] + [_ev(NS, w) for w in ws],
         poke=[mu, sem, rw, b1, lock, cond])
    return {"res": len(res)}


def data_cache_warmer_chained():
    """Tiered warm-up: the L1 warmer fetches through an adapter that, on the second key (t = 1/3 s), starts
    the L2 warmer and hands the L2 warmer's start event to the engine as a side effect of the fetch -
    CacheWarmer.warm_keys relays it, so the push happens while a CacheWarmer is being delivered to."""
    from happysimulator.components.datastore.cache_warming import CacheWarmer
    from happysimulator.components.datastore.cached_store import CachedStore
    from happysimulator.components.datastore.eviction_policies import LRUEviction
    from happysimulator.components.datastore.kv_store import KVStore
    _seed(91)
    kv = KVStore("kv", read_latency=H3 / 10)
    for i in range(4):
        kv.put_sync(f"k{i}", i)
    l1 = CachedStore("l1", kv, 4, LRUEviction(), cache_read_latency=NS)
    l2 = CachedStore("l2", kv, 8, LRUEviction(), cache_read_latency=THIRD / 100)
    w2 = CacheWarmer("warm2", l2, keys_to_warm=[f"k{i}" for i in range(4)], warmup_rate=1 / H3)

    class Adapter:
        """What the L1 warmer warms: L1 reads, plus the kick-off of the L2 warm-up."""

        def get(self, key):
            if key == "k1":
                yield 0.0, [w2.start_warming()]
            return (yield from l1.get(key))
    w1 = CacheWarmer("warm1", Adapter(), keys_to_warm=[f"k{i}" for i in range(4)], warmup_rate=3.0)
    _run([kv, l1, l2, w1, w2], [w1.start_warming()], end=6.0)
    return {"w1": w1.stats.keys_warmed, "w2": w2.stats.keys_warmed, "w2_complete": w2.is_complete}


# every scenario function of this module, by name (names start with "data_")
SCENARIOS = {_k: _v for _k, _v in sorted(globals().items()) if _k.startswith("data_") and callable(_v)}


def data_cache_warmer_slow_store():
    """CacheWarmer against a backing store whose reads take longer than the warm-up interval (20 ms reads
    at 100 keys/s, and 1/3 s reads at 7 keys/s): every fetch outlasts the pacing delay."""
    from happysimulator.components.datastore.cache_warming import CacheWarmer
    from happysimulator.components.datastore.cached_store import CachedStore
    from happysimulator.components.datastore.eviction_policies import LRUEviction
    from happysimulator.components.datastore.kv_store import KVStore
    out = {}
    for tag, lat, rate in (("fast_rate", 0.02, 100.0), ("third", THIRD, 7.0)):
        _seed(57)
        kv = KVStore("kv", read_latency=lat)
        for i in range(6):
            kv.put_sync(f"k{i}", i)
        cache = CachedStore("c", kv, 8, LRUEviction(), cache_read_latency=NS)
        wm = CacheWarmer("warm", cache, keys_to_warm=[f"k{i}" for i in range(6)], warmup_rate=rate)
        _run([kv, cache, wm], starters=[wm.start_warming], end=30.0)
        out[tag] = [wm.stats.keys_warmed, wm.is_complete]
    return out


SCENARIOS["data_cache_warmer_slow_store"] = data_cache_warmer_slow_store
