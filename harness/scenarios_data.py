"""C07 scenario corpus, data-plane families: storage, datastore, streaming, messaging, network,
replication, consensus, crdt, sync.

Every function builds a small model from real library components (fixed seeds), runs it inside one or
more real Simulations and returns a small JSON-able summary.  The engine-level monitor
(harness/simrec.py) watches the simulations; nothing here judges anything.

Parameter choices are deliberately hostile: non-zero latencies everywhere, durations whose nanosecond
conversion truncates (0.1*3, 1/3, 1.001, 0.7), 1 ns latencies / offsets, timeouts shorter and longer
than the guarded operation, same-instant bursts, operations exactly at period boundaries, end_time both
finite and absent.

Driver entities defined here (`_Proc`) only exist to call the generator APIs of passive components
(`yield from store.get(...)`) and to inject requests; whenever a component has an event interface the
requests are delivered to the component itself so that the monitor attributes emissions to it.
"""
from __future__ import annotations

import random

from happysimulator import Entity, Event, Instant, Simulation, Sink, Source
from happysimulator.core.sim_future import SimFuture
from happysimulator.distributions import ConstantLatency, ExponentialLatency
from happysimulator.load.source import SimpleEventProvider

# float-hostile durations (seconds): int(x * 1e9) truncates for all of them
H3 = 0.1 * 3            # 0.30000000000000004 -> 300000000 ns, but 3 * int(0.1e9) etc. differ
THIRD = 1 / 3           # 333333333.33 ns
ONE001 = 1.001          # 1000999999.9999999 ns -> 1000999999
P7 = 0.7                # 700000000 - eps on multiplication chains
NS = 1e-9               # one nanosecond
HOSTILE = (H3, THIRD, ONE001, P7, NS, 0.1 + 0.2, 2 / 3, 1e-9 * 3, 0.07 * 10)


def _seed(s):
    random.seed(s)
    try:
        import numpy as np
        np.random.seed(s)
    except Exception:
        pass


def _t(x):
    return x if isinstance(x, Instant) else Instant.from_seconds(x)


class _Proc(Entity):
    """Driver: runs `body(self, event)` (plain function or generator function) for every delivery."""

    def __init__(self, name, body=None):
        super().__init__(name)
        self.body = body
        self.log = []
        self.errors = []

    def handle_event(self, event):
        b = event.context.get("body") or self.body
        if b is None:
            return None
        return b(self, event)


def _ev(t, target, typ="go", daemon=False, **ctx):
    return Event(time=_t(t), event_type=typ, target=target, daemon=daemon, context=dict(ctx))


def _msg(t, net, src, dst, typ, daemon=False, **payload):
    """An event routed through `net` from src to dst (same shape as Network.send)."""
    e = Event(time=_t(t), event_type=typ, target=net, daemon=daemon)
    md = e.context["metadata"]
    md["source"] = src.name
    md["destination"] = dst.name
    md.update(payload)
    return e


def _run(entities, events=(), end=None, sources=None, start=None, poke=()):
    """Build and run one Simulation.  `poke`: passive entities that get one no-op delivery so that
    they show up as exercised inside a simulation."""
    sim = Simulation(start_time=start, end_time=None if end is None else _t(end),
                     sources=list(sources or []), entities=list(entities))
    for e in events:
        sim.schedule(e)
    t0 = start if start is not None else Instant.Epoch
    for p in poke:
        sim.schedule(Event(time=t0, event_type="verif_noop", target=p))
    sim.run()
    return sim


def _link(name, lat, **kw):
    from happysimulator.components.network.link import NetworkLink
    return NetworkLink(name=name, latency=lat if hasattr(lat, "get_latency") else ConstantLatency(lat), **kw)


def _mesh(net, nodes, lat=0.01, **kw):
    for i, a in enumerate(nodes):
        for b in nodes[i + 1:]:
            net.add_bidirectional_link(a, b, _link(f"l_{a.name}_{b.name}", lat, **kw))


def _star(net, hub, leaves, lat=0.01, **kw):
    for b in leaves:
        net.add_bidirectional_link(hub, b, _link(f"l_{hub.name}_{b.name}", lat, **kw))


def _src(rate, target, typ, ctx_fn, stop_after, name="src", poisson=False):
    prov = SimpleEventProvider(target, typ, _t(stop_after), context_fn=ctx_fn)
    f = Source.poisson if poisson else Source.constant
    return f(rate=rate, name=name, event_provider=prov)


# =====================================================================================================
# sync
# =====================================================================================================

def _workers(n, body):
    return [_Proc(f"w{i}", body) for i in range(n)]


def data_sync_mutex_hostile():
    """Five workers, same-instant burst plus 1 ns stragglers, hostile hold times, no end_time."""
    from happysimulator.components.sync.mutex import Mutex
    _seed(1)
    m = Mutex("m")
    done = []

    def body(w, ev):
        hold = ev.context["hold"]
        yield from m.acquire(w.name)
        yield hold
        r = m.release()
        done.append((w.name, w.now.nanoseconds))
        if r:
            yield 0.0, r
        # immediately try again without waiting (try_acquire path)
        if m.try_acquire(w.name):
            yield NS
            m.release()
    ws = _workers(5, body)
    evs = [_ev(0.0, w, hold=HOSTILE[i]) for i, w in enumerate(ws)]
    evs += [_ev(NS, w, hold=HOSTILE[i + 4]) for i, w in enumerate(ws)]
    evs += [_ev(H3, ws[0], hold=THIRD), _ev(H3, ws[1], hold=NS)]
    _run([m, *ws], evs, poke=[m])
    return {"done": len(done), "contentions": m.stats.contentions}


def data_sync_semaphore_multi():
    """Semaphore(3), acquire counts 1..3, burst arrivals at one instant, finite and absent end_time."""
    from happysimulator.components.sync.semaphore import Semaphore
    out = {}
    for end in (None, 2.0):
        _seed(2)
        s = Semaphore("s", 3)
        done = []

        def body(w, ev, s=s, done=done):
            k = ev.context["k"]
            yield from s.acquire(k)
            yield ev.context["hold"]
            r = s.release(k)
            done.append(w.name)
            if r:
                yield 0.0, r
        ws = _workers(6, body)
        evs = [_ev(0.0, w, k=1 + i % 3, hold=HOSTILE[i]) for i, w in enumerate(ws)]
        evs += [_ev(THIRD, w, k=3 - i % 3, hold=THIRD) for i, w in enumerate(ws)]
        _run([s, *ws], evs, end=end, poke=[s])
        out[str(end)] = len(done)
    return out


def data_sync_rwlock_mixed():
    """Readers and writers interleaved, max_readers=2, writers arriving while readers hold."""
    from happysimulator.components.sync.rwlock import RWLock
    _seed(3)
    rw = RWLock("rw", max_readers=2)
    done = []

    def reader(w, ev):
        yield from rw.acquire_read()
        yield ev.context["hold"]
        r = rw.release_read()
        done.append(("r", w.name, w.now.nanoseconds))
        if r:
            yield 0.0, r

    def writer(w, ev):
        yield from rw.acquire_write()
        yield ev.context["hold"]
        r = rw.release_write()
        done.append(("w", w.name, w.now.nanoseconds))
        if r:
            yield 0.0, r
    ws = _workers(8, None)
    evs = []
    for i, w in enumerate(ws):
        evs.append(_ev(0.0, w, body=(writer if i % 3 == 0 else reader), hold=HOSTILE[i]))
        evs.append(_ev(H3, w, body=(reader if i % 3 == 0 else writer), hold=HOSTILE[(i + 3) % 9]))
        evs.append(_ev(H3 + NS, w, body=reader, hold=NS))
    _run([rw, *ws], evs, poke=[rw])
    unl = RWLock("rw2")                      # unlimited readers, finite end_time cutting the last holder
    ws2 = _workers(4, None)

    def reader2(w, ev):
        yield from unl.acquire_read()
        yield ev.context["hold"]
        unl.release_read()

    def writer2(w, ev):
        yield from unl.acquire_write()
        yield ev.context["hold"]
        unl.release_write()
    evs = [_ev(0.5, w, body=(reader2 if i else writer2), hold=ONE001) for i, w in enumerate(ws2)]
    _run([unl, *ws2], evs, end=10.0, poke=[unl])
    return {"done": len(done)}


def data_sync_barrier_generations():
    """Barrier(3): two generations, arrivals 1 ns apart, then a reset() with a parked party."""
    from happysimulator.components.sync.barrier import Barrier
    _seed(4)
    b = Barrier("b", 3)
    idx = []

    def body(w, ev):
        i = yield from b.wait()
        idx.append((w.name, i, w.now.nanoseconds))
        yield ev.context.get("after", NS)

    def resetter(w, ev):
        b.reset()
        return None
    ws = _workers(7, body)
    evs = [_ev(0.0, ws[0]), _ev(NS, ws[1]), _ev(THIRD, ws[2], after=H3),
           _ev(THIRD, ws[3]), _ev(THIRD, ws[4]), _ev(THIRD, ws[5]),
           _ev(ONE001, ws[6]), _ev(2.0, ws[0], body=resetter)]
    _run([b, *ws], evs, poke=[b])
    return {"released": len(idx), "gen": b.generation}


def data_sync_condition_wait_for():
    """Condition.wait_for with timeouts shorter and longer than the producer's delay; notify/notify_all."""
    from happysimulator.components.sync.condition import Condition
    from happysimulator.components.sync.mutex import Mutex
    _seed(5)
    lock = Mutex("cl")
    cond = Condition("c", lock)
    items = []
    got = []

    def consumer(w, ev):
        yield from lock.acquire(w.name)
        ok = yield from cond.wait_for(lambda: bool(items), timeout=ev.context["timeout"])
        if ok:
            got.append((w.name, items.pop(0), w.now.nanoseconds))
        else:
            got.append((w.name, None, w.now.nanoseconds))
        r = lock.release()
        if r:
            yield 0.0, r

    def producer(w, ev):
        yield ev.context["delay"]
        yield from lock.acquire(w.name)
        items.append(w.now.nanoseconds)
        evs = cond.notify(1) if ev.context.get("one") else cond.notify_all()
        yield THIRD            # keep the mutex for a while after notifying
        r = lock.release()
        yield 0.0, (evs or []) + (r or [])
    cs = _workers(4, consumer)
    ps = [_Proc(f"p{i}", producer) for i in range(4)]
    evs = [_ev(0.0, c, timeout=(NS, H3, ONE001, None)[i]) for i, c in enumerate(cs)]
    evs += [_ev(0.0, p, delay=(H3, P7, ONE001, 2.0)[i], one=(i % 2 == 0)) for i, p in enumerate(ps)]
    _run([lock, cond, *cs, *ps], evs, end=30.0, poke=[lock, cond])
    return {"got": len(got)}


# =====================================================================================================
# network
# =====================================================================================================

def data_net_link_source_sink():
    """source -> NetworkLink (truncating latency, bandwidth, jitter) -> sink, payload sizes."""
    _seed(10)
    sink = Sink("sink")
    link = _link("lnk", H3, bandwidth_bps=8_000.0 / 3, jitter=ExponentialLatency(THIRD / 10), egress=sink)

    def ctx(t, n):
        return {"created_at": t, "metadata": {"payload_size": (n * 37) % 501}}
    src = _src(7.0, link, "pkt", ctx, 2.0)
    _run([link, sink], sources=[src], end=4.0)     # a Source ticks forever: always a finite end_time
    return {"n": sink.events_received, "sent": link.packets_sent}


def data_net_link_lossy_burst():
    """Same-instant burst through a lossy 1 ns link and through a zero-latency link; finite end_time."""
    _seed(11)
    sink = Sink("sink")
    lossy = _link("lossy", NS, packet_loss_rate=0.3, egress=sink)
    zero = _link("zero", 0.0, egress=sink)
    noeg = _link("noegress", ONE001)
    evs = [_ev(THIRD, lossy, "pkt") for _ in range(40)] + [_ev(THIRD, zero, "pkt") for _ in range(40)]
    evs += [_ev(THIRD, noeg, "pkt")]
    _run([lossy, zero, noeg, sink], evs, end=5.0)
    return {"n": sink.events_received, "dropped": lossy.packets_dropped}


def data_net_network_partition_heal():
    """client <-> server through Network; symmetric and asymmetric partitions created and healed exactly
    at message instants; unroutable and metadata-less events."""
    from happysimulator.components.network.network import Network
    _seed(12)
    net = Network(name="net")
    got = []

    def server(w, ev):
        got.append((w.name, ev.event_type, w.now.nanoseconds))
        if ev.event_type == "ping":
            src = ev.context["metadata"]["source"]
            yield H3 / 10
            return [net.send(w, peers[src], "pong", payload={"n": ev.context["metadata"].get("n")})]
        return None
    a, b, c = _Proc("a", server), _Proc("b", server), _Proc("c", server)
    peers = {"a": a, "b": b, "c": c}
    _mesh(net, [a, b], lat=THIRD / 10)
    net.add_link(a, c, _link("ac", P7 / 10))          # one-way only: c cannot answer a
    handles = {}

    def ctl(w, ev):
        op = ev.context["op"]
        if op == "part":
            handles["p"] = net.partition([a], [b])
        elif op == "apart":
            handles["q"] = net.partition([b], [a], asymmetric=True)
        elif op == "heal":
            handles.pop("p").heal()
        elif op == "healall":
            net.heal_partition()
        return None
    k = _Proc("ctl", ctl)
    evs = []
    for i in range(12):
        t = i * H3
        evs.append(_msg(t, net, a, b, "ping", n=i))
        evs.append(_msg(t, net, b, a, "ping", n=i))
        evs.append(_msg(t, net, a, c, "ping", n=i))
    evs += [_ev(3 * H3, k, op="part"), _ev(5 * H3, k, op="heal"), _ev(6 * H3, k, op="apart"),
            _ev(9 * H3, k, op="healall")]
    evs.append(Event(time=_t(0.5), event_type="nometa", target=net))
    _run([net, a, b, c, k], evs, end=None)
    return {"got": len(got), "routed": net.events_routed, "part": net.events_dropped_partition,
            "noroute": net.events_dropped_no_route}


def data_net_conditions_all():
    """Every predefined link profile as a route of one Network; a burst over each."""
    from happysimulator.components.network import conditions as C
    from happysimulator.components.network.network import Network
    _seed(13)
    net = Network(name="net")
    sink_log = []

    def rx(w, ev):
        sink_log.append((w.name, w.now.nanoseconds))
        return None
    hub = _Proc("hub", rx)
    mk = [C.local_network, C.datacenter_network, C.cross_region_network, C.internet_network,
          C.satellite_network, lambda name: C.lossy_network(0.25, name=name, base_latency=THIRD / 100),
          lambda name: C.slow_network(ONE001, name=name, bandwidth_bps=1e4 / 3),
          C.mobile_3g_network, C.mobile_4g_network]
    leaves = []
    for i, f in enumerate(mk):
        leaf = _Proc(f"n{i}", rx)
        leaves.append(leaf)
        net.add_bidirectional_link(hub, leaf, f(name=f"link{i}"))
    net.default_link = None
    evs = []
    for i, leaf in enumerate(leaves):
        for j in range(6):
            evs.append(_msg(0.1 * j, net, hub, leaf, "data", payload_size=100 + 400 * j))
            evs.append(_msg(0.1 * j, net, leaf, hub, "data", size=64))
    _run([net, hub, *leaves], evs)
    return {"rx": len(sink_log), "links": len(net.traffic_matrix())}


def data_net_default_link_pingpong():
    """Zero-latency and 1 ns default link: a bounded ping-pong chain stays at (almost) one instant."""
    from happysimulator.components.network.network import Network
    out = {}
    for lat in (0.0, NS, THIRD):
        _seed(14)
        net = Network(name="net", default_link=_link("dflt", lat))
        cnt = [0]

        def peer(w, ev, net=net, cnt=cnt):
            cnt[0] += 1
            n = ev.context["metadata"]["n"]
            if n <= 0:
                return None
            other = b if w is a else a
            e = net.send(w, other, "hop", payload={"n": n - 1})
            return [e]
        a, b = _Proc("a", peer), _Proc("b", peer)
        # default link has a single egress: route a->b and b->a explicitly with copies of it
        net.add_bidirectional_link(a, b, _link("ab", lat))
        _run([net, a, b], [_msg(0.25, net, a, b, "hop", n=300)], end=(None if lat else 1.0))
        out[str(lat)] = cnt[0]
    return out


# =====================================================================================================
# messaging
# =====================================================================================================

def _payload(target, n):
    return Event(time=Instant.Epoch, event_type="payload", target=target, context={"n": n})


def data_mq_poll_ack():
    """Producers publish, a Source polls the queue, consumers ack after hostile delays (1 ns .. 1.001 s);
    delivery latency 1/3 s so that polls overlap deliveries in flight."""
    from happysimulator.components.messaging.message_queue import MessageQueue
    _seed(20)
    q = MessageQueue("q", delivery_latency=THIRD, redelivery_delay=H3, max_redeliveries=3)
    sink = Sink("sink")
    acked = []

    def consumer(w, ev):
        if ev.event_type != "message_delivery":
            return None
        mid = ev.context["message_id"]
        yield HOSTILE[len(acked) % len(HOSTILE)]
        q.acknowledge(mid)
        acked.append(mid)
        return [Event(time=w.now, event_type="done", target=sink)]

    def producer(w, ev):
        for i in range(ev.context["k"]):
            yield from q.publish(_payload(sink, i))
        return [Event(time=w.now, event_type="poll", target=q)]
    cs = [_Proc(f"c{i}", consumer) for i in range(3)]
    for c in cs:
        q.subscribe(c)
    p = _Proc("prod", producer)
    evs = [_ev(0.0, p, k=5), _ev(THIRD, p, k=3), _ev(THIRD, p, k=1), _ev(ONE001, p, k=4)]
    poller = Source.constant(rate=3.0, target=q, event_type="poll", name="poller", stop_after=6.0)
    _run([q, sink, p, *cs], evs, sources=[poller], end=8.0)
    return {"acked": len(acked), "pending": q.pending_count, "inflight": q.in_flight_count}


def data_mq_redelivery_dlq():
    """Consumers never ack in time: visibility timeouts shorter and longer than the redelivery delay,
    redelivery until dead-lettered; DLQ with capacity and a 0.7 s retention; reprocess_all back into the
    queue; cleanup/clear admin events exactly at the retention boundary."""
    from happysimulator.components.messaging.dlq import DeadLetterQueue
    from happysimulator.components.messaging.message_queue import MessageQueue
    out = {}
    for rdel, tmo in ((H3, NS), (THIRD, ONE001), (ONE001, H3)):
        _seed(21)
        dlq = DeadLetterQueue("dlq", capacity=3, retention_period=P7)
        q = MessageQueue("q", delivery_latency=H3 / 3, redelivery_delay=rdel, max_redeliveries=2,
                         dead_letter_queue=dlq)
        sink = Sink("sink")

        def consumer(w, ev, q=q, tmo=tmo):
            if ev.event_type != "message_delivery":
                return None
            mid = ev.context["message_id"]
            yield tmo                                  # visibility timeout elapses without an ack
            r = q.schedule_redelivery(mid)
            return [r] if r is not None else None

        def producer(w, ev, q=q, sink=sink):
            for i in range(ev.context["k"]):
                yield from q.publish(_payload(sink, i))
            return [Event(time=w.now, event_type="poll", target=q) for _ in range(ev.context["k"])]

        def admin(w, ev, q=q, dlq=dlq):
            op = ev.context["op"]
            if op == "reprocess":
                return dlq.reprocess_all(q)
            if op == "one":
                m = dlq.peek()
                r = dlq.reprocess(m, q) if m is not None else None
                return [r] if r is not None else None
            return [Event(time=w.now, event_type=op, target=dlq)]
        c = _Proc("c", consumer)
        q.subscribe(c)
        p, a = _Proc("prod", producer), _Proc("admin", admin)
        evs = [_ev(0.0, p, k=4), _ev(2.0, p, k=2)]
        evs += [_ev(4.0, a, op="one"), _ev(4.0 + P7, a, op="cleanup"), _ev(4.0 + P7 + NS, a, op="cleanup"),
                _ev(6.0, a, op="reprocess"), _ev(7.0, a, op="clear")]
        poller = Source.constant(rate=4.0, target=q, event_type="poll", name="poller", stop_after=5.0)
        _run([q, dlq, sink, p, a, c], evs, sources=[poller], end=9.0)
        out[f"{rdel:.3f}"] = [q.stats.messages_redelivered, q.stats.messages_dead_lettered, dlq.message_count]
    return out


def data_mq_capacity_reject_burst():
    """Capacity 3, ten publishes at one instant (overflow raises in the producer, caught), consumers
    reject with and without requeue, no subscribers at first; no end_time."""
    from happysimulator.components.messaging.message_queue import MessageQueue
    _seed(22)
    q = MessageQueue("q", delivery_latency=NS, redelivery_delay=THIRD, max_redeliveries=1, capacity=3)
    sink = Sink("sink")
    seen = []

    def consumer(w, ev):
        if ev.event_type != "message_delivery":
            return None
        mid = ev.context["message_id"]
        seen.append(mid)
        if len(seen) % 3 == 0:
            q.acknowledge(mid)
        else:
            q.reject(mid, requeue=(len(seen) % 3 == 1))
        return [Event(time=w.now, event_type="poll", target=q)]

    def producer(w, ev):
        ok = 0
        try:
            for i in range(ev.context["k"]):
                yield from q.publish(_payload(sink, i))
                ok += 1
        except RuntimeError:
            w.errors.append("full")
        return [Event(time=w.now, event_type="poll", target=q) for _ in range(ok)]

    def sub(w, ev):
        q.subscribe(c1)
        q.subscribe(c2)
        return [Event(time=w.now, event_type="poll", target=q) for _ in range(5)]

    def unsub(w, ev):
        q.unsubscribe(c1)
        return None
    c1, c2 = _Proc("c1", consumer), _Proc("c2", consumer)
    ps = [_Proc(f"p{i}", producer) for i in range(4)]
    k = _Proc("k", None)
    evs = [_ev(0.0, p, k=10) for p in ps] + [_ev(H3, k, body=sub), _ev(P7, k, body=unsub),
                                             _ev(ONE001, ps[0], k=2)]
    _run([q, sink, c1, c2, k, *ps], evs)
    return {"seen": len(seen), "full": sum(len(p.errors) for p in ps)}


def data_topic_fanout():
    """source -> Topic('publish') -> three subscribers; per-subscriber latency 0.1*3 so publishes overlap;
    unsubscribe/re-subscribe with history replay in the middle of a publish."""
    from happysimulator.components.messaging.topic import Topic
    _seed(23)
    topic = Topic("t", delivery_latency=H3, max_subscribers=4)
    topic.set_retain_messages(True, max_history=5)
    got = []

    def subscriber(w, ev):
        got.append((w.name, ev.context.get("is_replay"), w.now.nanoseconds))
        return None
    subs = [_Proc(f"s{i}", subscriber) for i in range(4)]
    for s in subs[:3]:
        topic.subscribe(s)

    def ctl(w, ev):
        op = ev.context["op"]
        if op == "unsub":
            topic.unsubscribe(subs[1])
            return None
        if op == "late":
            return topic.subscribe(subs[3], replay_history=True)
        if op == "resub":
            return topic.subscribe(subs[1], replay_history=True)
        if op == "over":
            try:
                topic.subscribe(_Proc("extra", subscriber))
            except RuntimeError:
                w.errors.append("max")
        return None
    k = _Proc("ctl", ctl)

    def ctx(t, n):
        return {"created_at": t, "payload": _payload(subs[0], n)}
    src = _src(4.0, topic, "publish", ctx, 3.0)
    evs = [_ev(0.5 + H3, k, op="unsub"), _ev(ONE001, k, op="late"), _ev(2.0, k, op="resub"),
           _ev(2.0, k, op="over"), Event(time=_t(0.1), event_type="publish", target=topic)]
    _run([topic, k, *subs], evs, sources=[src], end=8.0)
    return {"got": len(got), "pub": topic.stats.messages_published}


def data_topic_zero_latency_burst():
    """Zero and 1 ns delivery latency, fifty publishes at one instant, publish_sync from a driver;
    no end_time."""
    from happysimulator.components.messaging.topic import Topic
    out = {}
    for lat in (0.0, NS):
        _seed(24)
        topic = Topic("t", delivery_latency=lat)
        n = [0]

        def subscriber(w, ev, n=n):
            n[0] += 1
            return None
        subs = [_Proc(f"s{i}", subscriber) for i in range(5)]
        for s in subs:
            topic.subscribe(s)

        def syncpub(w, ev, topic=topic, subs=subs):
            yield THIRD
            return topic.publish_sync(_payload(subs[0], -1))
        d = _Proc("d", syncpub)
        evs = [Event(time=_t(THIRD), event_type="publish", target=topic,
                     context={"payload": _payload(subs[0], i)}) for i in range(50)]
        evs.append(_ev(0.0, d))
        _run([topic, d, *subs], evs)
        out[str(lat)] = n[0]
    return out


# =====================================================================================================
# streaming
# =====================================================================================================

def data_eventlog_append_read_time_retention():
    """source -> EventLog('Append'); readers use the generator API; TimeRetention(0.7 s) swept every
    0.1*3 s; append latency 1/3 s so appends overlap sweeps."""
    from happysimulator.components.streaming.event_log import EventLog, TimeRetention
    _seed(30)
    log = EventLog("log", num_partitions=3, retention_policy=TimeRetention(P7), append_latency=THIRD,
                   read_latency=H3 / 10, retention_check_interval=H3)
    reads = []

    def reader(w, ev):
        for pid in range(3):
            recs = yield from log.read(pid, offset=0, max_records=5)
            reads.append(len(recs))

    def writer(w, ev):
        rec = yield from log.append(f"k{ev.context['i']}", {"i": ev.context["i"]})
        reads.append(rec.offset)
    r, wr = _Proc("reader", reader), _Proc("writer", writer)

    def ctx(t, n):
        return {"created_at": t, "key": f"user-{n % 5}", "value": n}
    src = _src(6.0, log, "Append", ctx, 3.0)
    evs = [_ev(i * H3, r) for i in range(1, 12)] + [_ev(i * THIRD, wr, i=i) for i in range(9)]
    _run([log, r, wr], evs, sources=[src], end=6.0)
    return {"appended": log.stats.records_appended, "expired": log.stats.records_expired, "reads": len(reads)}


def data_eventlog_size_retention_boundaries():
    """SizeRetention(2), sweep period 1/3 s, appends scheduled exactly on the sweep instants (the sweep
    chain starts when the first append completes) and 1 ns around them."""
    from happysimulator.components.streaming.event_log import EventLog, SizeRetention
    _seed(31)
    lat = 0.125
    log = EventLog("log", num_partitions=1, retention_policy=SizeRetention(2), append_latency=lat,
                   read_latency=NS, retention_check_interval=THIRD)
    evs = []
    first = Instant.from_seconds(lat)
    for k in range(12):
        tk = Instant.from_seconds(first.to_seconds() + 0.0)   # boundaries are computed like the component does
        for _ in range(k):
            tk = Instant.from_seconds(tk.to_seconds() + THIRD)
        for d in (-1, 0, 1):
            t = Instant(max(0, tk.nanoseconds + d - int(lat * 1e9)))
            evs.append(Event(time=t, event_type="Append", target=log, context={"key": "k", "value": k}))
    evs.append(Event(time=_t(1.0), event_type="Read", target=log, context={"partition": 0, "offset": 0}))
    _run([log], evs, end=5.0)
    return {"appended": log.stats.records_appended, "expired": log.stats.records_expired}


def data_eventlog_ns_retention_period():
    """retention_check_interval of 1 ns (the smallest representable period) with a finite end_time
    shortly after the first append."""
    from happysimulator.components.streaming.event_log import EventLog, SizeRetention
    _seed(32)
    log = EventLog("log", num_partitions=1, retention_policy=SizeRetention(1), append_latency=NS * 5,
                   retention_check_interval=NS)
    evs = [Event(time=_t(0.0), event_type="Append", target=log, context={"key": "k", "value": i})
           for i in range(3)]
    _run([log], evs, end=2e-6)
    return {"appended": log.stats.records_appended, "expired": log.stats.records_expired}


def data_consumer_group_flow():
    """Three consumers join at one instant, poll/commit in a loop, one leaves and rejoins; every
    assignment strategy; rebalance delay 1.001 s, poll latency 1 ns; producers append concurrently."""
    from happysimulator.components.streaming.consumer_group import (ConsumerGroup, RangeAssignment,
                                                                  RoundRobinAssignment, StickyAssignment)
    from happysimulator.components.streaming.event_log import EventLog
    out = {}
    for strat in (RangeAssignment(), RoundRobinAssignment(), StickyAssignment()):
        _seed(33)
        log = EventLog("log", num_partitions=4, append_latency=H3 / 10, read_latency=NS)
        grp = ConsumerGroup("grp", log, assignment_strategy=strat, rebalance_delay=ONE001,
                            poll_latency=NS, session_timeout=P7)
        polled = []

        def consumer(w, ev, grp=grp, polled=polled):
            yield from grp.join(w.name, w)
            offs = {}
            for _ in range(4):
                recs = yield from grp.poll(w.name, max_records=3)
                polled.append(len(recs))
                for r in recs:
                    offs[r.partition] = max(offs.get(r.partition, 0), r.offset + 1)
                if offs:
                    yield from grp.commit(w.name, dict(offs))
                yield THIRD
            if ev.context.get("leave"):
                yield from grp.leave(w.name)
                yield H3
                yield from grp.join(w.name, w)
                recs = yield from grp.poll(w.name)
                polled.append(len(recs))

        def producer(w, ev, log=log):
            for i in range(12):
                yield from log.append(f"key-{i}", i)
                yield NS
        cs = [_Proc(f"c{i}", consumer) for i in range(3)]
        p = _Proc("p", producer)
        evs = [_ev(0.0, p)] + [_ev(0.0, c, leave=(i == 1)) for i, c in enumerate(cs)]
        _run([log, grp, p, *cs], evs)
        out[type(strat).__name__] = [sum(polled), grp.stats.rebalances, grp.total_lag()]
    return out


def _window_src(proc, rate, stop, jitter_late=False, late_by=2.0):
    def ctx(t, n):
        ts = t.to_seconds()
        if jitter_late and n % 4 == 0:
            ts = max(0.0, ts - late_by)         # a late event
        return {"created_at": t, "key": f"k{n % 2}", "value": n, "event_time_s": ts}
    return _src(rate, proc, "Process", ctx, stop)


def data_stream_tumbling():
    """source -> StreamProcessor(TumblingWindow(0.1*3)) -> sink; watermark every 1/3 s; events exactly on
    window boundaries."""
    from happysimulator.components.streaming.stream_processor import StreamProcessor, TumblingWindow
    _seed(34)
    sink = Sink("sink")
    sp = StreamProcessor("sp", TumblingWindow(H3), sum, sink, watermark_interval_s=THIRD)
    src = _window_src(sp, 10.0, 3.0)
    evs = [Event(time=_t(k * H3), event_type="Process", target=sp, context={"key": "b", "value": 1,
                                                                            "event_time": _t(k * H3)})
           for k in range(8)]
    _run([sp, sink], evs, sources=[src], end=5.0)
    return {"windows": sp.stats.windows_emitted, "sink": sink.events_received}


def data_stream_sliding_late_side_output():
    """SlidingWindow(1.001, 1/3), allowed lateness 0.1*3, SIDE_OUTPUT and DROP policies, every fourth
    event is 2 s late."""
    from happysimulator.components.streaming.stream_processor import (LateEventPolicy, SlidingWindow,
                                                                      StreamProcessor)
    out = {}
    for pol in (LateEventPolicy.SIDE_OUTPUT, LateEventPolicy.DROP):
        _seed(35)
        sink, side = Sink("sink"), Sink("side")
        sp = StreamProcessor("sp", SlidingWindow(ONE001, THIRD), len, sink, allowed_lateness_s=H3,
                             late_event_policy=pol, side_output=side, watermark_interval_s=THIRD)
        src = _window_src(sp, 9.0, 5.0, jitter_late=True)
        _run([sp, sink, side], sources=[src], end=7.0)
        out[pol.name] = [sp.stats.windows_emitted, sp.stats.late_events, side.events_received]
    return out


def data_stream_session_update():
    """SessionWindow(gap 0.7 s) with bursts separated by gaps just below / above the gap, UPDATE policy,
    same-instant burst of 30 events."""
    from happysimulator.components.streaming.stream_processor import (LateEventPolicy, SessionWindow,
                                                                      StreamProcessor, TumblingWindow)
    _seed(36)
    sink = Sink("sink")
    sp = StreamProcessor("sp", SessionWindow(P7), len, sink, late_event_policy=LateEventPolicy.UPDATE,
                         watermark_interval_s=H3)
    times = [0.0, 0.1, P7 + 0.1 - NS, 2 * P7 + 0.1, 2 * P7 + 0.1 + P7 + NS, 5.0, 5.0 + P7]
    evs = [Event(time=_t(t), event_type="Process", target=sp, context={"key": "u", "value": i})
           for i, t in enumerate(times)]
    evs += [Event(time=_t(3.0), event_type="Process", target=sp, context={"key": f"b{i % 3}", "value": i})
            for i in range(30)]
    evs += [Event(time=_t(6.0), event_type="Process", target=sp,
                  context={"key": "u", "value": 99, "event_time_s": 0.05})]
    _run([sp, sink], evs, end=9.0)
    sink2 = Sink("sink2")
    sp2 = StreamProcessor("sp2", TumblingWindow(THIRD), len, sink2, late_event_policy=LateEventPolicy.UPDATE,
                          watermark_interval_s=THIRD)
    src = _window_src(sp2, 7.0, 2.0, jitter_late=True)
    _run([sp2, sink2], sources=[src], end=4.0)
    return {"w": sp.stats.windows_emitted, "w2": sp2.stats.windows_emitted}


def data_stream_ns_watermark_interval():
    """watermark_interval_s of 1 ns with a finite end_time 2 us after the first event."""
    from happysimulator.components.streaming.stream_processor import StreamProcessor, TumblingWindow
    _seed(37)
    sink = Sink("sink")
    sp = StreamProcessor("sp", TumblingWindow(NS * 100), len, sink, watermark_interval_s=NS)
    evs = [Event(time=_t(0.0), event_type="Process", target=sp, context={"key": "k", "value": i})
           for i in range(3)]
    _run([sp, sink], evs, end=2e-6)
    return {"w": sp.stats.windows_emitted}


# =====================================================================================================
# storage
# =====================================================================================================

def data_wal_sync_policies():
    """WriteAheadLog under every sync policy (every write, periodic 0.1*3 s, batch of 3), three writers
    appending concurrently, crash / recover / truncate in the middle of an append."""
    from happysimulator.components.storage.wal import (SyncEveryWrite, SyncOnBatch, SyncPeriodic,
                                                       WriteAheadLog)
    out = {}
    for pol in (SyncEveryWrite(), SyncPeriodic(H3), SyncOnBatch(3)):
        _seed(40)
        wal = WriteAheadLog("wal", sync_policy=pol, write_latency=THIRD / 10, sync_latency=H3 / 10)
        seqs = []

        def writer(w, ev, wal=wal, seqs=seqs):
            for i in range(ev.context["k"]):
                s = yield from wal.append(f"{w.name}-{i}", i)
                seqs.append(s)
                yield ev.context["gap"]

        def crash(w, ev, wal=wal):
            lost = wal.crash()
            rec = wal.recover()
            wal.truncate(rec[len(rec) // 2].sequence_number if rec else 0)
            wal.append_sync("after-crash", lost)
            return None
        ws = _workers(3, writer)
        k = _Proc("crash", crash)
        evs = [_ev(0.0, w, k=6, gap=(NS, H3 / 3, 0.0)[i]) for i, w in enumerate(ws)]
        evs += [_ev(H3, k), _ev(H3 + THIRD / 20, k)]
        _run([wal, k, *ws], evs, poke=[wal])
        out[type(pol).__name__] = [len(seqs), wal.stats.syncs, wal.size]
    return out


def data_memtable_sstable():
    """Memtable put/get with hostile latencies from concurrent drivers, flush into SSTables, SSTable
    lookups / scans priced as page reads."""
    from happysimulator.components.storage.memtable import Memtable
    from happysimulator.components.storage.sstable import SSTable
    _seed(41)
    mt = Memtable("mt", size_threshold=5, write_latency=THIRD / 100, read_latency=NS)
    tables = []
    hits = []

    def writer(w, ev):
        for i in range(12):
            full = yield from mt.put(f"k{(i * 7) % 10:02d}", (w.name, i))
            if full:
                tables.append(mt.flush())
            yield HOSTILE[i % len(HOSTILE)] / 100

    def reader(w, ev):
        for i in range(12):
            v = yield from mt.get(f"k{i % 10:02d}")
            for sst in tables[-2:]:
                if sst.contains(f"k{i % 10:02d}"):
                    yield sst.page_reads_for_get(f"k{i % 10:02d}") * (H3 / 1000)
                    v = sst.get(f"k{i % 10:02d}")
            hits.append(v is not None)
            yield THIRD / 50
        big = SSTable([(f"x{j:03d}", j) for j in range(200)], index_interval=7, level=1, sequence=9)
        yield big.page_reads_for_scan("x010", "x150") * (H3 / 1000)
        hits.append(len(big.scan("x010", "x150")) > 0)
    ws, rs = _workers(2, writer), [_Proc(f"r{i}", reader) for i in range(2)]
    evs = [_ev(0.0, x) for x in ws + rs]
    _run([mt, *ws, *rs], evs, poke=[mt])
    return {"tables": len(tables), "hits": sum(hits), "flushes": mt.stats.flushes}


def _lsm_workload(lsm, n_writers=3, keys=14, crash_at=None):
    log = []

    def writer(w, ev):
        for i in range(keys):
            yield from lsm.put(f"k{(i * 5 + ev.context['o']) % 17:02d}", (w.name, i))
            if i % 5 == 4:
                yield from lsm.delete(f"k{i % 17:02d}")
            yield HOSTILE[(i + ev.context["o"]) % len(HOSTILE)] / 1000

    def reader(w, ev):
        for i in range(keys):
            v = yield from lsm.get(f"k{i % 17:02d}")
            log.append(v is not None)
            if i % 6 == 0:
                r = yield from lsm.scan("k03", "k11")
                log.append(len(r))
            yield THIRD / 500

    def crash(w, ev):
        lsm.crash()
        lsm.recover_from_crash()
        return None
    ws = [_Proc(f"w{i}", writer) for i in range(n_writers)]
    rs = [_Proc(f"r{i}", reader) for i in range(2)]
    k = _Proc("crash", crash)
    evs = [_ev(0.0, w, o=i) for i, w in enumerate(ws)] + [_ev(THIRD / 100, r) for r in rs]
    if crash_at is not None:
        evs.append(_ev(crash_at, k))
    return ws + rs + [k], evs, log


def data_lsm_size_tiered_wal():
    """LSMTree with a WAL, memtable of 4 entries, size-tiered compaction after 2 SSTables; concurrent
    writers/readers/scans/deletes; CompactionTrigger events from a Source; crash + recovery between two
    rounds of writes (a crash() while a flush is suspended makes the flush raise ValueError when it
    resumes - a functional defect outside C07, so the crash is placed in a quiet moment)."""
    from happysimulator.components.storage.lsm_tree import LSMTree, SizeTieredCompaction
    from happysimulator.components.storage.wal import SyncOnBatch, WriteAheadLog
    _seed(42)
    wal = WriteAheadLog("wal", sync_policy=SyncOnBatch(2), write_latency=H3 / 1000, sync_latency=THIRD / 1000)
    lsm = LSMTree("lsm", memtable_size=4, compaction_strategy=SizeTieredCompaction(min_sstables=2), wal=wal,
                  sstable_read_latency=THIRD / 1000, sstable_write_latency=H3 / 100, max_levels=3)
    ents, evs, log = _lsm_workload(lsm, crash_at=1.5)
    evs += [_ev(1.5 + NS, w, o=i + 3) for i, w in enumerate(ents[:2])]
    trig = Source.constant(rate=30.0, target=lsm, event_type="CompactionTrigger", name="trig", stop_after=2.0)
    _run([lsm, wal, *ents], evs, sources=[trig], end=3.0, poke=[wal])
    return {"reads": len(log), "compactions": lsm.stats.compactions, "flushes": lsm.stats.memtable_flushes}


def data_lsm_leveled_fifo():
    """LSMTree without WAL under leveled and FIFO compaction, no end_time."""
    from happysimulator.components.storage.lsm_tree import FIFOCompaction, LeveledCompaction, LSMTree
    out = {}
    for strat in (LeveledCompaction(), FIFOCompaction(max_total_sstables=3)):
        _seed(43)
        lsm = LSMTree("lsm", memtable_size=3, compaction_strategy=strat, sstable_read_latency=NS,
                      sstable_write_latency=ONE001 / 1000, max_levels=4)
        ents, evs, log = _lsm_workload(lsm, n_writers=2, keys=20)
        evs += [Event(time=_t(x), event_type="CompactionTrigger", target=lsm) for x in (0.0, H3 / 100, 0.05)]
        _run([lsm, *ents], evs)
        out[type(strat).__name__] = [len(log), lsm.stats.compactions]
    return out


def data_btree_ops():
    """BTree(order 3) so that every few inserts split; concurrent get/put/delete/scan, page latencies
    1/3 ms and 1 ns."""
    from happysimulator.components.storage.btree import BTree
    out = {}
    for rl, wl in ((THIRD / 1000, H3 / 1000), (NS, NS)):
        _seed(44)
        bt = BTree("bt", order=3, page_read_latency=rl, page_write_latency=wl)
        res = []

        def writer(w, ev, bt=bt):
            for i in range(25):
                yield from bt.put(f"k{(i * 11 + ev.context['o']) % 40:02d}", i)
                if i % 4 == 3:
                    yield from bt.delete(f"k{(i * 3) % 40:02d}")

        def reader(w, ev, bt=bt, res=res):
            for i in range(25):
                v = yield from bt.get(f"k{i % 40:02d}")
                res.append(v)
                if i % 8 == 0:
                    r = yield from bt.scan("k05", "k30")
                    res.append(len(r))
        ws = [_Proc(f"w{i}", writer) for i in range(2)]
        rs = [_Proc(f"r{i}", reader) for i in range(2)]
        evs = [_ev(0.0, w, o=i) for i, w in enumerate(ws)] + [_ev(0.0, r) for r in rs]
        _run([bt, *ws, *rs], evs, poke=[bt])
        out[str(rl)] = [bt.size, bt.depth, bt.stats.node_splits]
    return out


def data_txn_manager_conflicts():
    """TransactionManager over a BTree and over an LSMTree, every isolation level, transactions that
    overlap on the same keys and commit at the same instant (write-write and read-write conflicts)."""
    from happysimulator.components.storage.btree import BTree
    from happysimulator.components.storage.lsm_tree import LSMTree
    from happysimulator.components.storage.transaction_manager import IsolationLevel, TransactionManager
    out = {}
    for mk in ("btree", "lsm"):
        for iso in IsolationLevel:
            _seed(45)
            store = (BTree("st", order=4, page_read_latency=THIRD / 1000, page_write_latency=H3 / 1000)
                     if mk == "btree" else LSMTree("st", memtable_size=5, sstable_read_latency=THIRD / 1000))
            tm = TransactionManager("tm", store, isolation=iso)
            res = []

            def txn(w, ev, tm=tm, res=res):
                tx = yield from tm.begin()
                a = yield from tx.read("acct-a")
                yield ev.context["think"]
                yield from tx.write("acct-a", (a or 0) + 1)
                yield from tx.write(f"acct-{w.name}", 1)
                if ev.context.get("abort"):
                    tx.abort()
                    res.append("abort")
                    return
                ok = yield from tx.commit()
                res.append(ok)
            ws = _workers(5, txn)
            evs = [_ev(0.0, w, think=(H3 / 100, H3 / 100, THIRD / 100, NS, ONE001 / 100)[i], abort=(i == 4))
                   for i, w in enumerate(ws)]
            evs += [_ev(0.01, w, think=NS) for w in ws[:2]]
            _run([store, tm, *ws], evs, poke=[tm])
            out[f"{mk}:{iso.name}"] = [tm.stats.transactions_committed, tm.stats.transactions_aborted]
    return out


# =====================================================================================================
# datastore
# =====================================================================================================

def data_kvstore_capacity_latencies():
    """KVStore with capacity 3 (FIFO eviction), distinct read / write / delete latencies, six drivers at
    one instant; zero-latency store as a second simulation."""
    from happysimulator.components.datastore.kv_store import KVStore
    out = {}
    for rl, wl, dl in ((THIRD / 100, H3 / 100, ONE001 / 100), (0.0, 0.0, 0.0)):
        _seed(50)
        kv = KVStore("kv", read_latency=rl, write_latency=wl, delete_latency=dl, capacity=3)
        res = []

        def body(w, ev, kv=kv, res=res):
            for i in range(6):
                yield from kv.put(f"k{(i + ev.context['o']) % 5}", i)
                v = yield from kv.get(f"k{i % 5}")
                res.append(v)
                if i % 3 == 2:
                    d = yield from kv.delete(f"k{i % 5}")
                    res.append(d)
        ws = _workers(6, body)
        _run([kv, *ws], [_ev(0.0, w, o=i) for i, w in enumerate(ws)], poke=[kv])
        out[str(rl)] = [kv.size, kv.stats.evictions]
    return out


def data_cached_store_policies():
    """CachedStore in front of a KVStore for every eviction policy (TTLEviction with a 0.1*3 s ttl read
    from the simulation clock), write-through and write-back with flush; reads racing writes."""
    from happysimulator.components.datastore import eviction_policies as E
    from happysimulator.components.datastore.cached_store import CachedStore
    from happysimulator.components.datastore.kv_store import KVStore
    out = {}
    clock = {}
    pols = [lambda: E.LRUEviction(), lambda: E.LFUEviction(),
            lambda: E.TTLEviction(H3, clock_func=lambda: clock["c"].now.to_seconds()),
            lambda: E.FIFOEviction(), lambda: E.RandomEviction(seed=3), lambda: E.SLRUEviction(0.5),
            lambda: E.SampledLRUEviction(sample_size=2, seed=4), lambda: E.ClockEviction(),
            lambda: E.TwoQueueEviction(0.5)]
    for i, mk in enumerate(pols):
        _seed(51)
        kv = KVStore("kv", read_latency=THIRD / 10, write_latency=H3 / 10)
        pol = mk()
        cs = CachedStore("cs", kv, cache_capacity=3, eviction_policy=pol, cache_read_latency=NS,
                         write_through=(i % 2 == 0))
        clock["c"] = cs
        res = []

        def body(w, ev, cs=cs, res=res):
            for j in range(8):
                k = f"k{(j * 3 + ev.context['o']) % 6}"
                if (j + ev.context["o"]) % 3 == 0:
                    yield from cs.put(k, j)
                else:
                    res.append((yield from cs.get(k)))
                if j == 5:
                    d = yield from cs.delete(k)
                    res.append(d)
                yield HOSTILE[j] / 10
            n = yield from cs.flush()
            res.append(n)
            cs.invalidate("k0")
        ws = _workers(3, body)
        _run([kv, cs, *ws], [_ev(0.0, w, o=k) for k, w in enumerate(ws)], poke=[kv, cs])
        out[type(pol).__name__] = [cs.stats.hits, cs.stats.misses, cs.stats.evictions]
    return out


def data_soft_ttl_cache_boundaries():
    """SoftTTLCache(soft 0.1*3, hard 1.001): reads exactly at / 1 ns around the soft and hard expiry of an
    entry, stale reads that trigger the background refresh (an event to the cache itself), coalesced
    reads during a refresh, capacity 2."""
    from happysimulator.components.datastore.kv_store import KVStore
    from happysimulator.components.datastore.soft_ttl_cache import SoftTTLCache
    out = {}
    for end in (None, 3.0):
        _seed(52)
        kv = KVStore("kv", read_latency=THIRD / 10, write_latency=H3 / 10)
        for k in "abc":
            kv.put_sync(k, k.upper())
        c = SoftTTLCache("sttl", kv, soft_ttl=H3, hard_ttl=ONE001, cache_capacity=2, cache_read_latency=NS)
        res = []

        def read(w, ev, c=c, res=res):
            v = yield from c.get(ev.context["k"])
            res.append((ev.context["k"], v, w.now.nanoseconds))

        def write(w, ev, c=c):
            yield from c.put(ev.context["k"], "new")
            c.invalidate("b")
        ws = _workers(4, read)
        stored = int((THIRD / 10) * 1e9)          # the first read of 'a' stores it at this instant
        soft, hard = stored + int(H3 * 1e9), stored + int(ONE001 * 1e9)
        evs = [_ev(0.0, ws[0], k="a")]
        for d in (-1, 0, 1):
            evs.append(_ev(Instant(soft + d), ws[1 + (d % 3)], k="a"))
            evs.append(_ev(Instant(hard + d), ws[1 + (d % 3)], k="a"))
        evs += [_ev(Instant(soft + 2), w, k="a") for w in ws]           # coalesce on the refresh in flight
        evs += [_ev(0.5, ws[0], k="b"), _ev(0.5, ws[1], k="c"), _ev(0.5 + NS, ws[2], k="zz"),
                _ev(0.7, ws[3], body=write, k="a"), _ev(2.5, ws[0], k="a"), _ev(2.5, ws[1], k="a")]
        _run([kv, c, *ws], evs, end=end, poke=[kv])
        out[str(end)] = [c.stats.fresh_hits, c.stats.stale_hits, c.stats.hard_misses,
                         c.stats.background_refreshes]
    return out


def data_cache_warmer_epoch():
    """CacheWarmer started at the epoch (the documented use): 3 keys/s -> a 1/3 s pacing delay, warmup
    reads through a CachedStore and through a SoftTTLCache; user reads race the warmer."""
    from happysimulator.components.datastore.cache_warming import CacheWarmer
    from happysimulator.components.datastore.cached_store import CachedStore
    from happysimulator.components.datastore.eviction_policies import LRUEviction
    from happysimulator.components.datastore.kv_store import KVStore
    from happysimulator.components.datastore.soft_ttl_cache import SoftTTLCache
    out = {}
    for kind in ("cached", "sttl"):
        _seed(53)
        kv = KVStore("kv", read_latency=H3 / 10, write_latency=THIRD / 10)
        for i in range(8):
            kv.put_sync(f"k{i}", i)
        cache = (CachedStore("c", kv, 4, LRUEviction(), cache_read_latency=NS) if kind == "cached"
                 else SoftTTLCache("c", kv, soft_ttl=P7, hard_ttl=ONE001, cache_read_latency=NS))
        wm = CacheWarmer("warm", cache, keys_to_warm=lambda: [f"k{i}" for i in range(6)] + ["missing"],
                         warmup_rate=3.0, warmup_latency=THIRD / 100)
        res = []

        def user(w, ev, cache=cache, res=res):
            for i in range(6):
                res.append((yield from cache.get(f"k{i}")))
                yield THIRD
        u = _Proc("user", user)
        _run([kv, cache, wm, u], [wm.start_warming(), _ev(THIRD, u)], poke=[kv])
        out[kind] = [wm.stats.keys_warmed, wm.stats.keys_failed, wm.is_complete]
    return out


def data_cache_warmer_late_start():
    """CacheWarmer.start_warming() called from inside a running simulation at t = 1/3 s and its event
    returned by the caller (a deployment step that warms a new cache node)."""
    from happysimulator.components.datastore.cache_warming import CacheWarmer
    from happysimulator.components.datastore.cached_store import CachedStore
    from happysimulator.components.datastore.eviction_policies import FIFOEviction
    from happysimulator.components.datastore.kv_store import KVStore
    _seed(54)
    kv = KVStore("kv", read_latency=H3 / 10)
    for i in range(4):
        kv.put_sync(f"k{i}", i)
    cache = CachedStore("c", kv, 4, FIFOEviction(), cache_read_latency=NS)
    wm = CacheWarmer("warm", cache, keys_to_warm=[f"k{i}" for i in range(4)], warmup_rate=1 / H3)

    def deploy(w, ev):
        yield THIRD
        return [wm.start_warming()]
    d = _Proc("deploy", deploy)
    _run([kv, cache, wm, d], [_ev(0.0, d)], end=5.0)
    return {"warmed": wm.stats.keys_warmed, "complete": wm.is_complete}


def data_database_pool_contention():
    """Database with 2 connections and 7 concurrent clients (the rest poll for a connection), a query
    latency function returning hostile values, transactions that commit / roll back, no end_time."""
    from happysimulator.components.datastore.database import Database
    _seed(55)
    lat = {"SELECT": THIRD / 10, "UPDATE": H3 / 10, "INSERT": ONE001 / 100, "DELETE": NS}
    db = Database("db", max_connections=2, query_latency=lambda q: lat.get(q.split()[0].upper(), P7 / 100),
                  connection_latency=THIRD / 100, commit_latency=H3 / 100, rollback_latency=NS)
    db.create_table("t")
    res = []

    def client(w, ev):
        r = yield from db.execute("SELECT * FROM t")
        res.append(r)
        tx = yield from db.begin_transaction()
        yield from tx.execute("UPDATE t SET x = 1")
        yield from tx.execute("INSERT INTO t VALUES (1)")
        if ev.context["rollback"]:
            yield from tx.rollback()
        else:
            yield from tx.commit()
        r = yield from db.execute("DELETE FROM t")
        res.append(r)
        r = yield from db.execute("VACUUM")
        res.append(r)
    ws = _workers(7, client)
    evs = [_ev(0.0 if i < 5 else H3 / 10, w, rollback=(i % 3 == 0)) for i, w in enumerate(ws)]
    _run([db, *ws], evs, poke=[db])
    return {"res": len(res), "waits": db.stats.connection_wait_count, "q": db.stats.queries_executed}


def data_multi_tier_cache():
    """MultiTierCache L1 (CachedStore, 1 ns) / L2 (CachedStore, 1/3 ms) over a KVStore for every promotion
    policy; reads, writes, deletes and invalidations from three drivers."""
    from happysimulator.components.datastore.cached_store import CachedStore
    from happysimulator.components.datastore.eviction_policies import LFUEviction, LRUEviction
    from happysimulator.components.datastore.kv_store import KVStore
    from happysimulator.components.datastore.multi_tier_cache import MultiTierCache, PromotionPolicy
    out = {}
    for pol in PromotionPolicy:
        _seed(56)
        kv = KVStore("kv", read_latency=H3 / 10, write_latency=ONE001 / 100)
        for i in range(10):
            kv.put_sync(f"k{i}", i)
        l1 = CachedStore("l1", kv, 2, LRUEviction(), cache_read_latency=NS)
        l2 = CachedStore("l2", kv, 5, LFUEviction(), cache_read_latency=THIRD / 1000)
        mt = MultiTierCache("mt", [l1, l2], kv, promotion_policy=pol)
        res = []

        def body(w, ev, mt=mt, res=res):
            for j in range(10):
                k = f"k{(j * (1 + ev.context['o'])) % 10}"
                res.append((yield from mt.get(k)))
                if j % 4 == 1:
                    yield from mt.put(k, -j)
                if j % 5 == 4:
                    yield from mt.delete(k)
                    mt.invalidate(f"k{j % 10}")
                yield HOSTILE[j % len(HOSTILE)] / 100
        ws = _workers(3, body)
        _run([kv, l1, l2, mt, *ws], [_ev(0.0, w, o=i) for i, w in enumerate(ws)], poke=[kv, l1, l2, mt])
        out[pol.name] = [mt.stats.reads, mt.stats.promotions]
    return out


def data_replicated_store_levels():
    """ReplicatedStore over three KVStores with different latencies for every (read, write) consistency
    pair; timeouts shorter than a replica's latency."""
    from happysimulator.components.datastore.kv_store import KVStore
    from happysimulator.components.datastore.replicated_store import ConsistencyLevel, ReplicatedStore
    out = {}
    for rc in ConsistencyLevel:
        for wc in ConsistencyLevel:
            _seed(57)
            reps = [KVStore(f"r{i}", read_latency=(NS, THIRD / 10, ONE001 / 10)[i],
                            write_latency=(H3 / 10, NS, P7 / 10)[i]) for i in range(3)]
            rs = ReplicatedStore("rs", reps, read_consistency=rc, write_consistency=wc,
                                 read_timeout=THIRD / 100, write_timeout=H3 / 100)
            res = []

            def body(w, ev, rs=rs, res=res):
                for j in range(4):
                    ok = yield from rs.put(f"k{j}", (w.name, j))
                    v = yield from rs.get(f"k{(j + 1) % 4}")
                    res.append((ok, v is not None))
                d = yield from rs.delete("k0")
                res.append(d)
            ws = _workers(3, body)
            _run([rs, *reps, *ws], [_ev(0.0, w) for w in ws], poke=[rs, *reps])
            out[f"{rc.name}/{wc.name}"] = len(res)
    return out


def data_sharded_store_strategies():
    """ShardedStore over four KVStores under hash, range and consistent-hash sharding; point operations
    and scatter_gather from concurrent drivers."""
    from happysimulator.components.datastore.kv_store import KVStore
    from happysimulator.components.datastore.sharded_store import (ConsistentHashSharding, HashSharding,
                                                                   RangeSharding, ShardedStore)
    out = {}
    for strat in (HashSharding(), RangeSharding(["g", "n", "t"]), ConsistentHashSharding(virtual_nodes=8, seed=5)):
        _seed(58)
        shards = [KVStore(f"s{i}", read_latency=HOSTILE[i] / 10, write_latency=HOSTILE[i + 4] / 10)
                  for i in range(4)]
        ss = ShardedStore("ss", shards, sharding_strategy=strat)
        res = []

        def body(w, ev, ss=ss, res=res):
            keys = [f"{c}{ev.context['o']}" for c in "azmhtbq"]
            for k in keys:
                yield from ss.put(k, k.upper())
            got = yield from ss.scatter_gather(keys + ["nope"])
            res.append(len(got))
            res.append((yield from ss.get(keys[0])))
            res.append((yield from ss.delete(keys[1])))
        ws = _workers(3, body)
        _run([ss, *shards, *ws], [_ev(0.0, w, o=i) for i, w in enumerate(ws)], poke=[ss, *shards])
        out[type(strat).__name__] = [len(res), sorted(ss.get_shard_sizes().values())]
    return out


def data_write_policies_flush_loop():
    """WriteThrough / WriteBack(0.1*3 s, 3 dirty) / WriteAround driving a KVStore from a periodic flusher
    whose period (1/3 s) is not a multiple of the policy's flush interval."""
    from happysimulator.components.datastore.kv_store import KVStore
    from happysimulator.components.datastore.write_policies import WriteAround, WriteBack, WriteThrough
    out = {}
    for pol in (WriteThrough(), WriteBack(flush_interval=H3, max_dirty=3), WriteAround()):
        _seed(59)
        kv = KVStore("kv", read_latency=NS, write_latency=THIRD / 10)
        buf = {}
        n = [0]

        def writer(w, ev, pol=pol, kv=kv, buf=buf):
            for j in range(9):
                k = f"k{j % 4}"
                buf[k] = j
                pol.on_write(k, j)
                if pol.should_write_through():
                    yield from kv.put(k, j)
                yield HOSTILE[j] / 10

        def flusher(w, ev, pol=pol, kv=kv, buf=buf, n=n):
            for _ in range(8):
                yield THIRD
                if pol.should_flush():
                    keys = pol.get_keys_to_flush()
                    for k in keys:
                        yield from kv.put(k, buf.get(k))
                    pol.on_flush(keys)
                    n[0] += len(keys)
        w1, f1 = _Proc("w", writer), _Proc("f", flusher)
        _run([kv, w1, f1], [_ev(0.0, w1), _ev(0.0, f1)], poke=[kv])
        out[type(pol).__name__] = [kv.stats.writes, n[0]]
    return out


SCENARIOS = {}


def _register(ns):
    for k, v in list(ns.items()):
        if k.startswith("data_") and callable(v):
            SCENARIOS[k] = v


_register(globals())
