"""Child process of the C03 / C07 checks: run one scenario under the process-wide recorder and write
its digest as JSON.

usage: python -m harness.sim_child <scenario> <out.json> [--prior N] [--fakewall] [--keep K] [--nolog]
scenario:  pytest:<path relative to the repo>[::node]    a test file of the repository, run in-process
           example:<path relative to the repo>:<func>      an example module's entry function
           engine:<seed>                                   a generated engine-level program
           lib:<name>                                      a scenario of harness/scenarios.py
"""
from __future__ import annotations

import importlib.util
import json
import os
import random
import sys
import time

REPO = os.environ.get("VERIF_REPO", "/repo")
HERE = os.path.dirname(os.path.dirname(os.path.abspath(__file__)))
for p in (HERE, REPO):
    if p not in sys.path:
        sys.path.insert(0, p)
sys.dont_write_bytecode = True


_REC = None


def seed_all(s=12345):
    random.seed(s)
    try:
        import numpy as np
        np.random.seed(s)
    except Exception:
        pass


def prior_activity(n):
    """Unrelated simulations executed earlier in the same interpreter."""
    from harness.engine_lib import random_program, World
    rng = random.Random(99)
    for _ in range(n):
        p = random_program(rng, max_total=15)
        w = World(p)
        sim = w.build()
        sim.run()
    # an unrelated model built from library components (stochastic source, server, sketches)
    try:
        from harness import scenarios
        random.seed(4711)
        try:
            import numpy as np
            np.random.seed(4711)
        except Exception:
            pass
        scenarios.poisson_queue(rate=17, seed_offset=1)
        scenarios.cms_str()
    except Exception:
        pass
    # consume global randomness the way an unrelated model would
    for _ in range(17):
        random.random()


_FAKE = {"t": 1_700_000_000.0}


def _fake_time():
    _FAKE["t"] += 0.75
    return _FAKE["t"]


def fake_wall():
    """A deterministic wall clock that runs much faster than the real one."""
    time.time = _fake_time
    time.monotonic = _fake_time
    time.perf_counter = _fake_time


def run_scenario(sc):
    kind, _, arg = sc.partition(":")
    if kind == "pytest":
        import pytest
        os.chdir(REPO)
        rc = pytest.main([arg, "-q", "-x", "-p", "no:cacheprovider", "-p", "no:warnings", "--no-header",
                          "-o", "addopts=", "--timeout=300"])
        return {"rc": int(rc)}
    if kind == "example":
        import inspect
        full = os.path.join(REPO, arg)
        spec = importlib.util.spec_from_file_location("verif_example", full)
        mod = importlib.util.module_from_spec(spec)
        sys.modules["verif_example"] = mod
        sys.path.insert(0, os.path.dirname(full))
        sys.argv = [full]
        try:
            import matplotlib
            matplotlib.use("Agg")
        except Exception:
            pass
        spec.loader.exec_module(mod)
        ran = []
        for name, fn in inspect.getmembers(mod, inspect.isfunction):
            if fn.__module__ != "verif_example" or not (name == "run" or name.startswith("run_")):
                continue
            ps = list(inspect.signature(fn).parameters.values())
            req = [p for p in ps if p.default is inspect._empty and p.kind in (p.POSITIONAL_ONLY, p.POSITIONAL_OR_KEYWORD, p.KEYWORD_ONLY)]
            if req:
                continue
            if ps and ps[0].name == "args":
                fn([])
            else:
                fn()
            ran.append(name)
        if not ran and hasattr(mod, "main"):
            mod.main()
            ran.append("main")
        return {"rc": 0, "ran": ran}
    if kind == "engine":
        from harness.engine_lib import random_program, World
        rng = random.Random(int(arg))
        for k in range(5):
            p = random_program(rng, burst=(k % 2 == 0), max_total=40)
            w = World(p, form=("list", "gen_yield", "single")[k % 3])
            sim = w.build(early=(3, 1, 0)[k % 3])     # the very first simulation has early events
            sim.run()
        return {"rc": 0}
    if kind == "lib":
        from harness import scenarios
        return {"rc": 0, "result": scenarios.run(arg)}
    if kind == "libgroup":          # libgroup:<prefix>:<k>:<n>  -> every n-th scenario of that prefix
        from harness import scenarios
        from harness.simrec import SpinAbort
        prefix, k, n = arg.split(":")
        names = sorted(x for x in scenarios.SCENARIOS if x.startswith(prefix))[int(k)::int(n)]
        ranges, errors = {}, {}
        for name in names:
            seed_all()
            a = len(_REC.sims)
            try:
                scenarios.run(name)
            except SpinAbort:
                pass
            except BaseException as e:  # noqa: BLE001
                errors[name] = f"{type(e).__name__}: {e}"[:300]
            ranges[name] = [a, len(_REC.sims)]
        return {"rc": 0, "ranges": ranges, "errors": errors}
    raise SystemExit(f"unknown scenario {sc}")


def main():
    sc, out = sys.argv[1], sys.argv[2]
    args = sys.argv[3:]
    prior = int(args[args.index("--prior") + 1]) if "--prior" in args else 0
    keep = int(args[args.index("--keep") + 1]) if "--keep" in args else 400
    import logging
    logging.disable(logging.NOTSET)
    logging.getLogger("happysimulator").setLevel(logging.WARNING)
    if prior:
        prior_activity(prior)
    if "--fakewall" in args:
        fake_wall()
    seed_all()
    from harness.simrec import Recorder
    rec = Recorder(keep_log=keep, want_log="--nolog" not in args).install()
    global _REC
    _REC = rec
    err = None
    info = {}
    t0 = time.perf_counter()
    try:
        info = run_scenario(sc)
    except SystemExit as e:
        info = {"rc": e.code if isinstance(e.code, int) else 1}
    except BaseException as e:  # noqa: BLE001
        err = f"{type(e).__name__}: {e}"
    rec.uninstall()
    res = {"scenario": sc, "err": err, "info": info, "sims": rec.digest(), "classes": rec.class_names(),
           "hashseed": os.environ.get("PYTHONHASHSEED"), "prior": prior, "fakewall": "--fakewall" in args}
    with open(out, "w") as f:
        json.dump(res, f)


if __name__ == "__main__":
    main()
