"""Engine probe: class-level wrappers installed by the harness in its own process only.

Records, per real execution, the engine-level vocabulary used by specs/engine/EngineTrace.tla:
  ["c", e, t_ns, daemon]   Event / ProcessContinuation constructed (creation order = order in log)
  ["p", e, clock_ns]       pushed into an EventHeap (clock of that heap's simulation if known)
  ["x", e]                 Event.cancel()
  ["o", e]                 popped from an EventHeap
  ["i", e, now_ns]         top-level invoke (handler / generator segment about to run), with the
                           target's clock reading
  ["k", e]                 invoke short-circuited because the target is crashed
  ["w"]                    engine logged "Time travel detected" (an event was discarded as past)
The repository is not modified; nothing is installed unless a harness calls install().
"""
from __future__ import annotations

import logging

from happysimulator.core import event as _event_mod
from happysimulator.core.event import Event, ProcessContinuation
from happysimulator.core.event_heap import EventHeap


class _TTHandler(logging.Handler):
    def __init__(self, probe):
        super().__init__(level=logging.WARNING)
        self.probe = probe

    def emit(self, record):
        try:
            if "Time travel detected" in str(record.msg):
                self.probe.log.append(["w"])
                self.probe.time_travel += 1
        except Exception:
            pass


class EngineProbe:
    def __init__(self, max_records: int = 2_000_000):
        self.log = []
        self._ids = {}
        self._keep = []
        self._depth = 0
        self._orig = {}
        self.time_travel = 0
        self.max_records = max_records
        self.overflow = False
        self.on_invoke = None     # optional callback(event, eid) for spin guards
        self._cur = None          # event whose top-level invoke is in progress
        self.targets = {}         # event id -> target name

    def eid(self, ev) -> int:
        k = id(ev)
        e = self._ids.get(k)
        if e is None:
            e = len(self._keep) + 1
            self._ids[k] = e
            self._keep.append(ev)
            # created before the probe was installed: register a creation record now
            self.log.append(["c", e, _ns(ev.time), bool(ev.daemon)])
        return e

    # ------------------------------------------------------------------
    def install(self):
        probe = self
        o = self._orig
        o["ev_init"] = Event.__init__
        o["pc_init"] = ProcessContinuation.__init__
        o["push"] = EventHeap._push_single
        o["pop"] = EventHeap.pop
        o["ev_invoke"] = Event.invoke
        o["pc_invoke"] = ProcessContinuation.invoke
        o["cancel"] = Event.cancel

        def ev_init(self, *a, **kw):
            o["ev_init"](self, *a, **kw)
            probe._created(self)

        def pc_init(self, *a, **kw):
            o["pc_init"](self, *a, **kw)
            probe._created(self)

        def push(self, event):
            o["push"](self, event)
            probe.log.append(["p", probe.eid(event), _ns(self._current_time)])

        def pop(self):
            ev = o["pop"](self)
            probe.log.append(["o", probe.eid(ev)])
            return ev

        def cancel(self):
            o["cancel"](self)
            probe.log.append(["x", probe.eid(self)])

        def mk_invoke(orig):
            def invoke(self):
                if probe._depth == 0:
                    e = probe.eid(self)
                    probe._cur = self
                    if getattr(self.target, "_crashed", False) and orig is o["ev_invoke"]:
                        probe.log.append(["k", e])
                    else:
                        clk = getattr(self.target, "_clock", None)
                        now = _ns(clk.now) if clk is not None else -1
                        probe.log.append(["i", e, now])
                        if probe.on_invoke is not None:
                            probe.on_invoke(self, e)
                        if len(probe.log) > probe.max_records:
                            probe.overflow = True
                            raise ProbeOverflow()
                probe._depth += 1
                try:
                    return orig(self)
                finally:
                    probe._depth -= 1
            return invoke

        Event.__init__ = ev_init
        ProcessContinuation.__init__ = pc_init
        EventHeap._push_single = push
        EventHeap.pop = pop
        Event.invoke = mk_invoke(o["ev_invoke"])
        ProcessContinuation.invoke = mk_invoke(o["pc_invoke"])
        Event.cancel = cancel
        self._h = _TTHandler(self)
        lg = logging.getLogger("happysimulator.core.simulation")
        lg.addHandler(self._h)
        self._old_level = lg.level
        if lg.getEffectiveLevel() > logging.WARNING:
            lg.setLevel(logging.WARNING)
        lg.propagate = False
        return self

    def uninstall(self):
        o = self._orig
        Event.__init__ = o["ev_init"]
        ProcessContinuation.__init__ = o["pc_init"]
        EventHeap._push_single = o["push"]
        EventHeap.pop = o["pop"]
        Event.invoke = o["ev_invoke"]
        ProcessContinuation.invoke = o["pc_invoke"]
        Event.cancel = o["cancel"]
        lg = logging.getLogger("happysimulator.core.simulation")
        lg.removeHandler(self._h)
        lg.setLevel(self._old_level)

    def __enter__(self):
        return self.install()

    def __exit__(self, *a):
        self.uninstall()

    def _created(self, ev):
        k = id(ev)
        e = len(self._keep) + 1
        self._ids[k] = e
        self._keep.append(ev)
        self.targets[e] = getattr(getattr(ev, "target", None), "name", None)
        rec = ["c", e, _ns(ev.time), bool(ev.daemon)]
        if isinstance(ev, ProcessContinuation) and self._cur is not None and self._depth > 0:
            # a continuation belongs to the process started by / continued from the current event:
            # record that event's daemon flag (the process inherits it)
            rec.append(bool(self._cur.daemon))
        self.log.append(rec)

    def event(self, e: int):
        return self._keep[e - 1]


class ProbeOverflow(RuntimeError):
    pass


_INF = 1 << 62


def _ns(t) -> int:
    try:
        n = t.nanoseconds
    except Exception:
        return -1
    if n is None or n > _INF:
        return _INF
    return int(n)


def quiet_logging():
    lg = logging.getLogger("happysimulator")
    if not lg.handlers:
        lg.addHandler(logging.NullHandler())
    lg.setLevel(logging.ERROR)
    logging.getLogger("happysimulator.core.simulation").setLevel(logging.WARNING)
