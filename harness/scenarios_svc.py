"""C07 scenario corpus, service-side families: microservice, deployment, resilience, client,
load_balancer, rate_limiter, server.

Every function builds a small model from library components (fixed seeds), drives it inside a real
Simulation and returns a JSON-able digest.  The scenarios deliberately use configurations the
repository's own tests never use: non-zero latencies everywhere, float-hostile durations (0.1*3, 1/3,
1.001, 0.7, nanosecond-adjacent), timeouts shorter and longer than the operation they guard, multi-step
flows whose earlier steps outlast later timeouts, same-instant bursts, arrivals exactly on period
boundaries, end_time finite and absent.  Simulations are observed by harness/simrec.py.

Helper entities defined here (Svc, Call, Hold) live in module harness.scenarios_svc and are therefore
never counted as library emitters by the monitor.
"""
from __future__ import annotations

import dataclasses
import random

from happysimulator import Entity, Event, Instant, Simulation, Sink, Source
from happysimulator.distributions import ConstantLatency, ExponentialLatency

T3 = 0.1 * 3          # 0.30000000000000004
THIRD = 1 / 3
ODD = 1.001
SEVEN = 0.7
NS = 1e-9
HOSTILE = (T3, THIRD, ODD, SEVEN)


# --------------------------------------------------------------------------------------- helpers
def _seed(n):
    random.seed(n)
    try:
        import numpy as np
        np.random.seed(n)
    except Exception:
        pass


def _exp(mean, seed):
    try:
        return ExponentialLatency(mean, seed=seed)
    except TypeError:
        return ExponentialLatency(mean)


def _t(sec):
    return Instant.from_seconds(sec)


def _ev(t, target, etype="req", daemon=False, **meta):
    """An event at t seconds (float) or at an exact Instant."""
    when = t if isinstance(t, Instant) else _t(t)
    return Event(time=when, event_type=etype, target=target, daemon=daemon,
                 context={"metadata": dict(meta), "created_at": when, "payload": {"k": meta.get("key", 0)}})


def _run(entities, events=(), end=None, sources=()):
    sim = Simulation(sources=list(sources), entities=list(entities),
                     end_time=None if end is None else _t(end))
    for e in events:
        sim.schedule(e)
    sim.run()
    return sim


def _st(x):
    s = getattr(x, "stats", None)
    if callable(s):
        s = s()
    if dataclasses.is_dataclass(s):
        return {k: (v if isinstance(v, (int, str, bool)) else repr(v)) for k, v in dataclasses.asdict(s).items()}
    return repr(s)


class Svc(Entity):
    """Backend with a per-event-type latency (seconds, or a callable of the arrival ordinal)."""

    def __init__(self, name, latency=0.01, by_type=None, downstream=None):
        super().__init__(name)
        self.latency, self.by_type, self.downstream = latency, dict(by_type or {}), downstream
        self.n = 0
        self.done = 0

    def handle_event(self, event):
        self.n += 1
        lat = self.by_type.get(event.event_type, self.latency)
        if callable(lat):
            lat = lat(self.n)
        if lat > 0:
            yield lat
        self.done += 1
        if self.downstream is not None:
            return [self.forward(event, self.downstream)]
        return None


class Call(Entity):
    """Runs context['fn'](entity) when delivered; whatever it returns is scheduled."""

    def __init__(self, name="call"):
        super().__init__(name)

    def handle_event(self, event):
        r = event.context["fn"](self)
        if r is None:
            return None
        return r if isinstance(r, list) else [r]


def _call(t, caller, fn, daemon=False):
    when = t if isinstance(t, Instant) else _t(t)
    return Event(time=when, event_type="call", target=caller, daemon=daemon, context={"fn": fn})


def _burst(target, times, etype="req", per=1, **meta):
    out = []
    k = 0
    for t in times:
        for _ in range(per):
            k += 1
            out.append(_ev(t, target, etype, key=f"k{k}", client_id=f"c{k % 5}", seq=k, **meta))
    return out


def _server(name, conc=1, lat=0.01, downstream=None, cap=None):
    from happysimulator.components.server import Server
    return Server(name, concurrency=conc, service_time=ConstantLatency(lat), downstream=downstream,
                  queue_capacity=cap)


# ------------------------------------------------------------------------------------ microservice
def _saga(steps_spec, comp_lat=0.05, on_complete=None):
    """steps_spec: list of (action latency, timeout).  One Svc per step."""
    from happysimulator.components.microservice import Saga, SagaStep
    svcs, steps = [], []
    for i, (lat, tmo) in enumerate(steps_spec):
        s = Svc(f"step{i}", by_type={f"do{i}": lat, f"undo{i}": comp_lat * (i + 1)})
        svcs.append(s)
        steps.append(SagaStep(f"s{i}", s, f"do{i}", s, f"undo{i}", timeout=tmo))
    return Saga("saga", steps, on_complete=on_complete), svcs


def svc_saga_happy():
    _seed(1)
    saga, svcs = _saga([(T3, 1.0), (THIRD, ODD), (ODD, 2.5), (SEVEN, None)])
    _run([saga, *svcs], [_ev(t, saga, "order") for t in (0.0, 0.0, T3, THIRD)])
    return _st(saga)


def svc_saga_late_step_timeout():
    """Earlier steps take longer than the timeout of a later (fast) step."""
    _seed(2)
    out = []
    for spec in ([(SEVEN, ODD), (THIRD, 0.4), (0.05, 0.1)],
                 [(ODD, 1.5), (SEVEN, 0.9), (0.01, 0.02), (0.001, 0.002)],
                 [(0.4, 0.5), (T3, THIRD), (T3, THIRD), (T3, THIRD)]):
        saga, svcs = _saga(spec)
        _run([saga, *svcs], [_ev(0.0, saga, "order"), _ev(0.25, saga, "order"), _ev(ODD, saga, "order")])
        out.append(_st(saga))
    return out


def svc_saga_timeout_compensates():
    """A later step outlasts its timeout after slow earlier steps; compensation runs in reverse."""
    _seed(3)
    fin = []
    saga, svcs = _saga([(SEVEN, 1.0), (THIRD, 0.5), (0.2, 0.1)], comp_lat=T3,
                       on_complete=lambda i, st, res: fin.append((i, st.value)))
    _run([saga, *svcs], [_ev(0.0, saga, "order"), _ev(THIRD, saga, "order")], end=30.0)
    return {"stats": _st(saga), "fin": fin}


def svc_saga_first_step_timeout():
    _seed(4)
    saga, svcs = _saga([(ODD, T3), (0.1, 1.0)])
    _run([saga, *svcs], _burst(saga, [0.0, T3, T3 * 2], "order", per=3))
    return _st(saga)


def svc_saga_burst_contention():
    """Steps are single-slot Servers: same-instant sagas queue, later ones exceed their timeouts."""
    _seed(5)
    from happysimulator.components.microservice import Saga, SagaStep
    a, b, c = _server("inv", 1, T3), _server("pay", 1, THIRD), _server("ship", 2, 0.05)
    saga = Saga("saga", [SagaStep("inv", a, "reserve", a, "release", timeout=ODD),
                         SagaStep("pay", b, "charge", b, "refund", timeout=SEVEN),
                         SagaStep("ship", c, "ship", c, "cancel", timeout=0.1)])
    _run([saga, a, b, c], _burst(saga, [0.0, 0.0, 1.0, 1.0 + T3], "order", per=4), end=60.0)
    return _st(saga)


def svc_saga_timeout_equals_latency():
    """Timeout and completion land on the same instant."""
    _seed(6)
    saga, svcs = _saga([(T3, T3), (THIRD, THIRD), (ODD, ODD)])
    _run([saga, *svcs], [_ev(0.0, saga, "order"), _ev(NS, saga, "order"), _ev(SEVEN, saga, "order")])
    return _st(saga)


def _gateway(auth_latency=0.001, fail=0.0):
    from happysimulator.components.microservice import APIGateway, RouteConfig
    from happysimulator.components.rate_limiter import FixedWindowPolicy, TokenBucketPolicy
    u1, u2, o, p = Svc("u1", T3), Svc("u2", 0.05), Svc("o", THIRD), Svc("p", 0.01)
    gw = APIGateway("gw", {
        "/users": RouteConfig("users", [u1, u2], rate_limit_policy=TokenBucketPolicy(capacity=3, refill_rate=7),
                              timeout=0.1),
        "/orders": RouteConfig("orders", [o], auth_required=True, timeout=ODD),
        "/public": RouteConfig("public", [p], auth_required=False,
                               rate_limit_policy=FixedWindowPolicy(2, window_size=T3), timeout=0.005),
        "/empty": RouteConfig("empty", [], auth_required=False),
    }, auth_latency=auth_latency, auth_failure_rate=fail)
    return gw, [u1, u2, o, p]


def svc_gateway_routes():
    _seed(7)
    gw, bs = _gateway(auth_latency=T3 / 100)
    evs = []
    for i, t in enumerate([0.0, 0.0, 0.1, T3, THIRD, 0.6, 0.6, 0.9, ODD]):
        for r in ("/users", "/orders", "/public", "/empty", "/nope"):
            evs.append(_ev(t, gw, "get", route=r, seq=i))
    _run([gw, *bs], evs)
    return _st(gw)


def svc_gateway_burst_auth_fail():
    _seed(8)
    gw, bs = _gateway(auth_latency=THIRD / 10, fail=0.3)
    evs = [_ev(0.3 * k, gw, "get", route=("/users", "/public", "/orders")[j % 3], seq=j)
           for k in range(4) for j in range(15)]
    _run([gw, *bs], evs, end=10.0)
    return _st(gw)


def svc_gateway_zero_auth_latency():
    _seed(9)
    gw, bs = _gateway(auth_latency=0.0)
    src = Source.constant(rate=30, target=gw, event_type="get", stop_after=1.0,
                          event_provider=None)
    # sources produce no route metadata -> no_route path; explicit events take the routed path
    evs = [_ev(k / 10, gw, "get", route="/users") for k in range(10)]
    _run([gw, *bs], evs, end=2.0, sources=[src])
    return _st(gw)


def _idem(ttl, cleanup, lat, cap=10_000):
    from happysimulator.components.microservice import IdempotencyStore
    tgt = Svc("pay", lat)
    st = IdempotencyStore("idem", tgt, key_extractor=lambda e: e.context.get("metadata", {}).get("key"),
                          ttl=ttl, max_entries=cap, cleanup_interval=cleanup)
    return st, tgt


def svc_idempotency_ttl():
    _seed(10)
    st, tgt = _idem(ttl=THIRD, cleanup=T3, lat=SEVEN)
    evs = []
    for t in (0.0, 0.0, 0.5, SEVEN, 0.9, ODD, 1.2, 2.0, 2.0 + THIRD):
        for k in ("a", "b", None):
            evs.append(_ev(t, st, "charge", key=k))
    _run([st, tgt], evs)
    return _st(st)


def svc_idempotency_evict_ns():
    """Nanosecond-scale ttl and cleanup interval, tiny cache."""
    _seed(11)
    st, tgt = _idem(ttl=5 * NS, cleanup=NS, lat=2 * NS, cap=2)
    evs = [_ev(Instant(n), st, "charge", key=f"k{n % 4}") for n in (0, 0, 1, 2, 3, 5, 8, 13, 21, 34)]
    _run([st, tgt], evs, end=1e-6)
    return _st(st)


def svc_idempotency_cleanup_shorter_than_latency():
    _seed(12)
    st, tgt = _idem(ttl=ODD, cleanup=0.01, lat=T3)
    _run([st, tgt], _burst(st, [0.0, T3, T3, 0.9], "charge", per=3), end=5.0)
    return _st(st)


class _Writer(Entity):
    def __init__(self, name, outbox, n=1):
        super().__init__(name)
        self.outbox, self.per = outbox, n

    def handle_event(self, event):
        for i in range(self.per):
            self.outbox.write({"i": i, "t": self.now.nanoseconds})
        return [Event(time=self.now, event_type="kick", target=self.outbox)]


def _outbox(poll, batch, relay_latency, per=3, times=(0.0, 0.05, T3, THIRD, ODD), end=None):
    from happysimulator.components.microservice import OutboxRelay
    sink = Sink("mq")
    ob = OutboxRelay("ob", sink, poll_interval=poll, batch_size=batch, relay_latency=relay_latency)
    w = _Writer("w", ob, per)
    _run([ob, w, sink], [_ev(t, w, "order") for t in times], end=end)
    return {"stats": _st(ob), "sink": sink.events_received}


def svc_outbox_zero_relay_latency():
    _seed(13)
    return [_outbox(T3, 2, 0.0), _outbox(THIRD, 100, 0.0, end=5.0), _outbox(NS, 1, 0.0, times=(0.0, NS, 2 * NS))]


def svc_outbox_relay_latency():
    """Default relay_latency (> 0): entries relayed in a batch, one latency per entry."""
    _seed(14)
    return [_outbox(0.1, 50, 0.001), _outbox(T3, 3, THIRD / 10, end=10.0)]


def _sidecar(lat, **kw):
    from happysimulator.components.microservice import Sidecar
    tgt = Svc("be", lat)
    sc = Sidecar("sc", tgt, **kw)
    return sc, tgt


def svc_sidecar_fast_backend():
    _seed(15)
    sc, tgt = _sidecar(0.05, request_timeout=T3, max_retries=2, retry_base_delay=THIRD)
    _run([sc, tgt], _burst(sc, [0.0, 0.0, 0.05, T3, 1.0]))
    return _st(sc)


def svc_sidecar_timeouts_retries_circuit():
    _seed(16)
    from happysimulator.components.rate_limiter import TokenBucketPolicy
    slow = lambda n: (SEVEN if n % 3 else 0.01)
    sc, tgt = _sidecar(slow, request_timeout=T3, max_retries=3, retry_base_delay=T3 / 3,
                       circuit_failure_threshold=2, circuit_success_threshold=1, circuit_timeout=THIRD,
                       rate_limit_policy=TokenBucketPolicy(capacity=4, refill_rate=3))
    _run([sc, tgt], _burst(sc, [0.0, 0.1, T3, THIRD, 0.9, ODD, 2.0, 2.0, 3.0, 4.0], per=2))
    return _st(sc)


def svc_sidecar_zero_backoff_ns_timeout():
    _seed(17)
    sc, tgt = _sidecar(1.0, request_timeout=NS, max_retries=5, retry_base_delay=0.0,
                       circuit_failure_threshold=1, circuit_timeout=2 * NS)
    _run([sc, tgt], _burst(sc, [0.0, 0.0, 1.0]), end=5.0)
    return _st(sc)


# -------------------------------------------------------------------------------------- deployment
def _lb(n=2, conc=2, lat=0.05, strategy=None):
    from happysimulator.components.load_balancer import LoadBalancer
    servers = [_server(f"s{i}", conc, lat) for i in range(n)]
    return LoadBalancer("lb", backends=servers, strategy=strategy), servers


def _autoscale(policy, interval, out_cd, in_cd, rate=60, end=6.0, lat=0.05, stop_at=None):
    from happysimulator.components.deployment import AutoScaler
    lb, servers = _lb(1, 2, lat)
    sc = AutoScaler("as", lb, lambda name: _server(name, 2, lat), policy=policy, min_instances=1, max_instances=5,
                    evaluation_interval=interval, scale_out_cooldown=out_cd, scale_in_cooldown=in_cd)
    src = Source.constant(rate=rate, target=lb, event_type="req", stop_after=end * 0.5)
    c = Call()
    evs = [sc.start()]
    if stop_at is not None:
        evs.append(_call(stop_at, c, lambda _c: sc.stop()))
    _run([lb, *servers, sc, c], evs, end=end, sources=[src])
    return {"stats": _st(sc), "count": sc.current_count, "lb": _st(lb)}


def svc_autoscaler_target_utilization():
    _seed(18)
    from happysimulator.components.deployment import TargetUtilization
    return [_autoscale(TargetUtilization(0.7), T3, THIRD, ODD),
            _autoscale(TargetUtilization(0.5), THIRD, T3, SEVEN, rate=90, stop_at=4.0)]


def svc_autoscaler_step_scaling():
    _seed(19)
    from happysimulator.components.deployment import StepScaling
    return _autoscale(StepScaling([(0.9, 2), (0.5, 1), (0.0, -1)]), SEVEN / 7, T3, T3, rate=80, lat=T3 / 3)


def svc_autoscaler_queue_depth():
    _seed(20)
    from happysimulator.components.deployment import QueueDepthScaling
    return _autoscale(QueueDepthScaling(scale_out_threshold=5, scale_in_threshold=1), ODD / 10, THIRD, THIRD,
                      rate=120, lat=0.1)


def svc_autoscaler_no_end_time():
    """Daemon evaluation loop, no end_time: the run ends when the workload drains."""
    _seed(21)
    from happysimulator.components.deployment import AutoScaler
    lb, servers = _lb(1, 1, T3)
    sc = AutoScaler("as", lb, lambda name: _server(name, 1, T3), min_instances=1, max_instances=3,
                    evaluation_interval=THIRD, scale_out_cooldown=NS, scale_in_cooldown=NS)
    _run([lb, *servers, sc], [sc.start(), *_burst(lb, [0.0, 0.0, T3, 1.0, 1.0], per=3)])
    return {"stats": _st(sc), "count": sc.current_count}


def _canary(stages, interval, evaluator=None, canary_lat=0.02, rate=50, end=None):
    from happysimulator.components.deployment import CanaryDeployer, CanaryStage
    from happysimulator.components.load_balancer import WeightedRoundRobin
    lb, servers = _lb(2, 4, 0.02, strategy=WeightedRoundRobin())
    dep = CanaryDeployer("can", lb, lambda name: _server(name, 4, canary_lat),
                         stages=[CanaryStage(p, per) for p, per in stages], metric_evaluator=evaluator,
                         evaluation_interval=interval)
    total = sum(per for _, per in stages) + 4 * interval
    evs = [dep.deploy()] + [_ev(k / rate, lb, "req", client_id=f"c{k}") for k in range(int(rate * total))]
    _run([lb, *servers, dep], evs, end=end)
    return {"stats": _st(dep), "status": dep.state.status, "stage": dep.state.current_stage}


def svc_canary_hostile_periods():
    """Evaluation periods whose nanosecond conversion truncates: 0.1*3, 1/3, 1.001."""
    _seed(22)
    return [_canary([(0.01, T3), (0.05, THIRD), (0.25, ODD), (1.0, SEVEN)], 0.1),
            _canary([(0.1, T3)], T3), _canary([(0.1, THIRD)], THIRD), _canary([(0.1, ODD)], ODD)]


def svc_canary_interval_grid():
    _seed(23)
    out = []
    for interval in (0.1, THIRD / 2, T3, SEVEN):
        for period in HOSTILE:
            out.append(_canary([(0.2, period), (1.0, period / 2)], interval, rate=20))
    return out


def svc_canary_interval_longer_than_period():
    _seed(24)
    return [_canary([(0.1, 0.1), (0.5, T3)], ODD, rate=20, end=20.0),
            _canary([(0.5, NS), (1.0, 2 * NS)], T3, rate=20)]


def svc_canary_rollback():
    _seed(25)
    from happysimulator.components.deployment import ErrorRateEvaluator, LatencyEvaluator
    return [_canary([(0.5, ODD), (1.0, THIRD)], T3, evaluator=LatencyEvaluator(max_latency=0.1, threshold_multiplier=1.5),
                    canary_lat=SEVEN / 2),
            _canary([(0.5, THIRD)], 0.1, evaluator=ErrorRateEvaluator(max_error_rate=0.01))]


def _rolling(batch, interval, thr, max_fail, new_lat, n=3, end=None):
    from happysimulator.components.deployment import RollingDeployer
    lb, servers = _lb(n, 2, 0.02)
    dep = RollingDeployer("roll", lb, lambda name: _server(name, 1, new_lat), batch_size=batch,
                          health_check_interval=interval, healthy_threshold=thr, max_failures=max_fail)
    evs = [dep.deploy()] + [_ev(k * 0.05, lb, "req") for k in range(40)]
    _run([lb, *servers, dep], evs, end=end)
    return {"stats": _st(dep), "status": dep.state.status}


def svc_rolling_healthy():
    _seed(26)
    return [_rolling(1, T3, 2, 2, 0.01), _rolling(2, THIRD, 1, 0, 0.05), _rolling(3, ODD / 10, 3, 1, 0.02, end=30.0)]


def svc_rolling_probe_slower_than_interval():
    """New instances answer the probe later than the health-check interval: timeouts, rollback."""
    _seed(27)
    return [_rolling(1, 0.1, 2, 1, T3), _rolling(2, THIRD, 1, 0, SEVEN, n=4), _rolling(1, T3, 2, 5, T3, end=20.0)]


# -------------------------------------------------------------------------------------- resilience
def svc_bulkhead_queue_timeouts():
    _seed(28)
    from happysimulator.components.resilience import Bulkhead
    tgt = Svc("be", SEVEN)
    bh = Bulkhead("bh", tgt, max_concurrent=2, max_wait_queue=3, max_wait_time=THIRD)
    _run([bh, tgt], _burst(bh, [0.0, 0.0, T3, SEVEN, SEVEN, 2.0], per=3))
    return _st(bh)


def svc_bulkhead_unbounded_wait():
    _seed(29)
    from happysimulator.components.resilience import Bulkhead
    tgt = Svc("be", T3)
    bh = Bulkhead("bh", tgt, max_concurrent=1, max_wait_queue=20, max_wait_time=None)
    bh2 = Bulkhead("bh2", tgt, max_concurrent=1, max_wait_queue=0)
    _run([bh, bh2, tgt], _burst(bh, [0.0, 0.0, T3], per=5) + _burst(bh2, [0.0, T3, T3 * 2], per=2), end=30.0)
    return [_st(bh), _st(bh2)]


def svc_circuit_breaker_cycles():
    _seed(30)
    from happysimulator.components.resilience import CircuitBreaker
    tgt = Svc("be", T3 / 3)
    bad = {"on": True}
    cb = CircuitBreaker("cb", tgt, failure_threshold=2, success_threshold=2, timeout=THIRD,
                        half_open_max_requests=1, failure_predicate=lambda e: bad["on"])
    c = Call()
    evs = _burst(cb, [k * 0.11 for k in range(30)]) + [_call(ODD, c, lambda _c: bad.update(on=False)),
                                                      _call(2.0, c, lambda _c: cb.force_open()),
                                                      _call(2.5, c, lambda _c: cb.reset())]
    _run([cb, tgt, c], evs)
    return _st(cb)


def svc_circuit_breaker_ns_timeout():
    _seed(31)
    from happysimulator.components.resilience import CircuitBreaker
    tgt = Svc("be", 2 * NS)
    cb = CircuitBreaker("cb", tgt, failure_threshold=1, success_threshold=1, timeout=NS,
                        failure_predicate=lambda e: e.context["metadata"].get("seq", 0) % 2 == 0)
    _run([cb, tgt], [_ev(Instant(n), cb, "req", seq=n) for n in range(0, 40)] + _burst(cb, [0.0, 0.0, 1e-6], per=5),
         end=1.0)
    return _st(cb)


def svc_timeout_wrapper_short_and_long():
    _seed(32)
    from happysimulator.components.resilience import TimeoutWrapper
    tgt = Svc("be", lambda n: (0.05, T3, THIRD, ODD)[n % 4])
    fb = Sink("fb")
    tw = TimeoutWrapper("tw", tgt, timeout=T3,
                        on_timeout=lambda orig: Event(time=tw.now, event_type="fallback", target=fb))
    tw2 = TimeoutWrapper("tw2", tw, timeout=ODD)
    _run([tw2, tw, tgt, fb], _burst(tw2, [0.0, 0.0, T3, THIRD, 1.0], per=2))
    return [_st(tw), _st(tw2), fb.events_received]


def svc_timeout_wrapper_equal_and_ns():
    _seed(33)
    from happysimulator.components.resilience import TimeoutWrapper
    tgt = Svc("be", T3)
    tw = TimeoutWrapper("tw", tgt, timeout=T3)          # timeout == latency
    tgt2 = Svc("be2", NS)
    tw_ns = TimeoutWrapper("twns", tgt2, timeout=NS)
    _run([tw, tgt, tw_ns, tgt2], _burst(tw, [0.0, T3], per=2) + _burst(tw_ns, [0.0, NS, 2 * NS], per=2), end=3.0)
    return [_st(tw), _st(tw_ns)]


def svc_fallback_entity_and_callable():
    _seed(34)
    from happysimulator.components.resilience import Fallback
    prim = Svc("prim", lambda n: SEVEN if n % 2 else 0.05)
    sec = Svc("sec", THIRD)
    got = Sink("got")
    fb = Fallback("fb", prim, sec, timeout=T3)
    fb2 = Fallback("fb2", prim, lambda ev: Event(time=fb2.now, event_type="cached", target=got), timeout=0.1,
                   failure_predicate=lambda e: e.context["metadata"].get("seq", 0) % 3 == 0)
    fb3 = Fallback("fb3", prim, sec, timeout=None, failure_predicate=lambda e: True)
    _run([fb, fb2, fb3, prim, sec, got],
         _burst(fb, [0.0, 0.0, T3, 1.0]) + _burst(fb2, [0.0, 0.1, 0.1, SEVEN]) + _burst(fb3, [0.0, THIRD]))
    return [_st(fb), _st(fb2), _st(fb3)]


def svc_hedge_delays():
    _seed(35)
    from happysimulator.components.resilience import Hedge
    tgt = Svc("be", lambda n: (0.02, SEVEN, T3)[n % 3])
    h1 = Hedge("h1", tgt, hedge_delay=T3 / 3, max_hedges=1)
    h3 = Hedge("h3", tgt, hedge_delay=THIRD / 3, max_hedges=3)
    hl = Hedge("hl", tgt, hedge_delay=ODD, max_hedges=2)      # longer than any request
    hn = Hedge("hn", tgt, hedge_delay=NS, max_hedges=4)
    evs = []
    for h in (h1, h3, hl, hn):
        evs += _burst(h, [0.0, 0.0, T3, THIRD, 1.0])
    _run([h1, h3, hl, hn, tgt], evs)
    return [_st(h) for h in (h1, h3, hl, hn)]


def svc_resilience_chain():
    """bulkhead -> breaker -> timeout -> hedge -> single-slot server, as in the package docstring."""
    _seed(36)
    from happysimulator.components.resilience import Bulkhead, CircuitBreaker, Hedge, TimeoutWrapper
    be = _server("be", 1, T3 / 2)
    hedge = Hedge("hedge", be, hedge_delay=0.05)
    tw = TimeoutWrapper("timeout", hedge, timeout=THIRD)
    cb = CircuitBreaker("breaker", tw, failure_threshold=3, timeout=SEVEN)
    bh = Bulkhead("bulkhead", cb, max_concurrent=3, max_wait_queue=4, max_wait_time=T3)
    src = Source.poisson(rate=25, target=bh, event_type="req", stop_after=2.0)
    _run([bh, cb, tw, hedge, be], _burst(bh, [0.0, 0.0, 1.0], per=4), end=6.0, sources=[src])
    return [_st(x) for x in (bh, cb, tw, hedge)]


# ------------------------------------------------------------------------------------------ client
def _client_run(client, extra, times=(0.0, 0.0, 0.05, T3, THIRD, 1.0), end=None, per=1):
    sim = Simulation(entities=[client, *extra], end_time=None if end is None else _t(end))
    for t in times:
        for _ in range(per):
            ev = client.send_request(payload={"t": t})
            ev.time = _t(t)
            sim.schedule(ev)
    sim.run()
    return _st(client)


def svc_client_no_retry():
    _seed(37)
    from happysimulator.components.client import Client
    ok, fail = [], []
    srv = _server("srv", 2, T3 / 3)
    c = Client("c", srv, timeout=ODD, on_success=lambda rq, rs: ok.append(1), on_failure=lambda rq, why: fail.append(why))
    c2 = Client("c2", srv, timeout=None)
    return [_client_run(c, [srv], per=2), _client_run(c2, [srv]), len(ok), len(fail)]


def svc_client_fixed_retry_short_timeout():
    _seed(38)
    from happysimulator.components.client import Client, FixedRetry
    srv = Svc("srv", lambda n: SEVEN if n % 4 else 0.01)
    c = Client("c", srv, timeout=T3, retry_policy=FixedRetry(max_attempts=4, delay=THIRD))
    return _client_run(c, [srv], per=2)


def svc_client_backoff_policies():
    _seed(39)
    from happysimulator.components.client import Client, DecorrelatedJitter, ExponentialBackoff, NoRetry
    out = []
    for pol in (ExponentialBackoff(5, initial_delay=T3 / 10, max_delay=ODD, multiplier=3.0, jitter=THIRD / 10),
                ExponentialBackoff(3, initial_delay=NS, max_delay=NS),
                DecorrelatedJitter(5, base_delay=THIRD / 10, max_delay=SEVEN), NoRetry()):
        srv = _server("srv", 1, T3)
        c = Client("c", srv, timeout=0.1, retry_policy=pol)
        out.append(_client_run(c, [srv], end=30.0))
    return out


def svc_client_zero_timeout_zero_delay():
    """timeout=0 and retry delay 0: every attempt and its timeout at one instant (finite)."""
    _seed(40)
    from happysimulator.components.client import Client, FixedRetry
    srv = Svc("srv", 0.01)
    c = Client("c", srv, timeout=0.0, retry_policy=FixedRetry(max_attempts=50, delay=0.0))
    return _client_run(c, [srv], times=(0.0, 0.0, 0.0, T3), per=3)


def svc_client_through_link():
    """client -> network link (latency + jitter) -> server; the response hook rides the link."""
    _seed(41)
    from happysimulator.components.client import Client, FixedRetry
    from happysimulator.components.network import NetworkLink
    srv = _server("srv", 1, THIRD / 3)
    link = NetworkLink(name="wan", latency=ConstantLatency(T3 / 3), jitter=_exp(0.01, 3), egress=srv,
                       bandwidth_bps=1e6, packet_loss_rate=0.1)
    c = Client("c", link, timeout=T3, retry_policy=FixedRetry(3, SEVEN / 7))
    return _client_run(c, [link, srv], per=2, end=20.0)


def svc_client_via_network_router():
    """Network routes by metadata; the client's own metadata has none, so requests are dropped by
    the router and every attempt times out (timeout path through a generator-based target)."""
    _seed(42)
    from happysimulator.components.client import Client, ExponentialBackoff
    from happysimulator.components.network import Network, NetworkLink
    srv = _server("srv", 1, 0.01)
    net = Network(name="net", default_link=NetworkLink(name="l", latency=ConstantLatency(0.01), egress=srv))
    c = Client("c", net, timeout=THIRD, retry_policy=ExponentialBackoff(3, T3, ODD))
    return _client_run(c, [net, srv])


class Hold(Entity):
    """Acquires a pooled connection, holds it, releases it."""

    def __init__(self, name, pool, hold):
        super().__init__(name)
        self.pool, self.hold = pool, hold
        self.ok = self.timeouts = 0

    def handle_event(self, event):
        try:
            conn = yield from self.pool.acquire()
        except TimeoutError:
            self.timeouts += 1
            return None
        yield self.hold
        self.ok += 1
        return self.pool.release(conn)


def _pool(**kw):
    from happysimulator.components.client import ConnectionPool
    srv = _server("db", 4, 0.01)
    return ConnectionPool("pool", srv, **kw), srv


def svc_pool_contention():
    _seed(43)
    pool, srv = _pool(max_connections=2, connection_timeout=ODD, idle_timeout=THIRD,
                      connection_latency=ConstantLatency(T3 / 10))
    hs = [Hold(f"h{i}", pool, (T3, THIRD, 0.05)[i % 3]) for i in range(6)]
    evs = [_ev(t, h, "go") for h in hs for t in (0.0, SEVEN, 2.0)]
    _run([pool, srv, *hs], evs)
    return {"pool": _st(pool), "ok": sum(h.ok for h in hs), "to": sum(h.timeouts for h in hs)}


def svc_pool_acquire_timeout():
    _seed(44)
    pool, srv = _pool(max_connections=1, connection_timeout=T3 / 3, idle_timeout=ODD)
    pool_ns, _ = _pool(max_connections=1, connection_timeout=5 * NS, idle_timeout=NS,
                       connection_latency=ConstantLatency(NS))
    hs = [Hold(f"h{i}", pool, SEVEN) for i in range(4)] + [Hold(f"n{i}", pool_ns, 0.01) for i in range(3)]
    _run([pool, pool_ns, srv, *hs], [_ev(0.0, h, "go") for h in hs] + [_ev(1.0, h, "go") for h in hs], end=10.0)
    return {"pool": _st(pool), "ns": _st(pool_ns), "to": sum(h.timeouts for h in hs)}


def svc_pool_warmup_long_idle():
    _seed(45)
    pool, srv = _pool(min_connections=3, max_connections=5, idle_timeout=THIRD,
                      connection_latency=ConstantLatency(0.01))
    hs = [Hold(f"h{i}", pool, T3) for i in range(5)]
    _run([pool, srv, *hs], [pool.warmup()] + [_ev(0.5, h, "go") for h in hs], end=4.0)
    return _st(pool)


def svc_pool_warmup_idle_shorter_than_setup():
    """idle_timeout shorter than the time warm-up needs to establish the remaining connections."""
    _seed(46)
    pool, srv = _pool(min_connections=3, max_connections=5, idle_timeout=0.005,
                      connection_latency=ConstantLatency(0.01))
    _run([pool, srv], [pool.warmup()], end=1.0)
    return _st(pool)


def _pooled(timeout, policy, idle, srv_lat, max_conn=2, conn_timeout=ODD):
    from happysimulator.components.client import ConnectionPool, PooledClient
    srv = Svc("srv", srv_lat)
    pool = ConnectionPool("pool", srv, max_connections=max_conn, connection_timeout=conn_timeout,
                          idle_timeout=idle, connection_latency=ConstantLatency(T3 / 30))
    pc = PooledClient("pc", pool, timeout=timeout, retry_policy=policy)
    return pc, pool, srv


def svc_pooled_client_burst():
    _seed(47)
    pc, pool, srv = _pooled(None, None, THIRD, T3 / 3)
    r = _client_run(pc, [pool, srv], per=3)
    return [r, _st(pool)]


def svc_pooled_client_retry_short_delay():
    _seed(48)
    from happysimulator.components.client import FixedRetry
    pc, pool, srv = _pooled(0.1, FixedRetry(3, 0.01), ODD, lambda n: T3 if n % 2 else 0.02)
    r = _client_run(pc, [pool, srv], per=2, end=20.0)
    return [r, _st(pool)]


def svc_pooled_client_retry_delay_exceeds_idle_timeout():
    """Request timeout -> connection released to the idle pool -> retry back-off longer than the
    pool's idle_timeout."""
    _seed(49)
    from happysimulator.components.client import FixedRetry
    pc, pool, srv = _pooled(0.1, FixedRetry(3, SEVEN), 0.05, T3)
    r = _client_run(pc, [pool, srv], times=(0.0, 1.0), end=20.0)
    return [r, _st(pool)]


def svc_pooled_client_connection_wait_timeout():
    _seed(50)
    pc, pool, srv = _pooled(None, None, THIRD, SEVEN, max_conn=1, conn_timeout=T3)
    r = _client_run(pc, [pool, srv], times=(0.0, 0.0, 0.0, 0.1), end=20.0)
    return [r, _st(pool)]


# ----------------------------------------------------------------------------------- load balancer
def svc_lb_all_strategies():
    _seed(51)
    from happysimulator.components.load_balancer import (ConsistentHash, IPHash, LeastConnections, LeastResponseTime,
                                                         LoadBalancer, PowerOfTwoChoices, Random, RoundRobin,
                                                         WeightedLeastConnections, WeightedRoundRobin)
    out = {}
    for mk in (RoundRobin, WeightedRoundRobin, Random, LeastConnections, WeightedLeastConnections,
               LeastResponseTime, IPHash, lambda: ConsistentHash(virtual_nodes=7), PowerOfTwoChoices):
        strat = mk()
        servers = [_server(f"s{i}", 1 + i, (T3 / 3, THIRD / 3, 0.02)[i]) for i in range(3)]
        lb = LoadBalancer("lb", strategy=strat)
        for i, s in enumerate(servers):
            lb.add_backend(s, weight=i + 1)
        if hasattr(strat, "set_weight"):
            for i, s in enumerate(servers):
                strat.set_weight(s, 3 - i)
        src = Source.poisson(rate=40, target=lb, event_type="req", stop_after=1.0)
        _run([lb, *servers], _burst(lb, [0.0, 0.0, T3, THIRD, 1.0], per=3), end=4.0, sources=[src])
        out[type(strat).__name__] = _st(lb)
    return out


def _health(interval, timeout, lats, thr=(1, 2), end=None, stop_at=None, traffic=True):
    from happysimulator.components.load_balancer import HealthChecker, LoadBalancer
    backends = [Svc(f"b{i}", lat) for i, lat in enumerate(lats)]
    lb = LoadBalancer("lb", backends=backends)
    hc = HealthChecker("hc", lb, interval=interval, timeout=timeout, healthy_threshold=thr[0],
                       unhealthy_threshold=thr[1])
    c = Call()
    evs = [hc.start()]
    if stop_at is not None:
        evs.append(_call(stop_at, c, lambda _c: hc.stop()))
    if traffic:
        evs += _burst(lb, [k * 0.07 for k in range(30)])
    _run([lb, hc, c, *backends], evs, end=end)
    return {"hc": _st(hc), "lb": _st(lb), "healthy": lb.healthy_count}


def svc_lb_health_checker_slow_backend():
    """One backend answers later than the probe timeout; one exactly at it."""
    _seed(52)
    return [_health(T3, 0.1, [0.01, SEVEN, 0.1], end=5.0),
            _health(THIRD, T3, [lambda n: SEVEN if 3 < n < 12 else 0.01, 0.02], thr=(2, 2), stop_at=6.0),
            _health(ODD, SEVEN, [SEVEN, ODD], stop_at=8.0, traffic=False)]


def svc_lb_health_checker_ns():
    _seed(53)
    return _health(2 * NS, NS, [NS, 3 * NS], end=2e-7, traffic=False)


def svc_lb_membership_changes():
    _seed(54)
    from happysimulator.components.load_balancer import LeastConnections, LoadBalancer
    s = [_server(f"s{i}", 1, T3 / 3) for i in range(3)]
    lb = LoadBalancer("lb", backends=s[:2], strategy=LeastConnections())
    c = Call()
    evs = _burst(lb, [k * 0.04 for k in range(50)]) + [
        _call(0.5, c, lambda _c: lb.mark_unhealthy(s[0])), _call(SEVEN, c, lambda _c: lb.mark_unhealthy(s[1])),
        _call(ODD, c, lambda _c: (s[2].set_clock(c._clock), lb.add_backend(s[2]))[-1]),
        _call(1.2, c, lambda _c: lb.mark_healthy(s[0])), _call(1.5, c, lambda _c: lb.remove_backend(s[1]))]
    _run([lb, c, *s], evs)
    return _st(lb)


# ------------------------------------------------------------------------------------ rate limiter
def _limited(policy, times, per=1, cap=1000, end=None, rate=None):
    from happysimulator.components.rate_limiter import RateLimitedEntity
    sink = Sink("sink")
    rl = RateLimitedEntity("rl", sink, policy, queue_capacity=cap)
    srcs = [Source.poisson(rate=rate, target=rl, event_type="req", stop_after=1.0)] if rate else []
    _run([rl, sink], _burst(rl, times, per=per), end=end, sources=srcs)
    return {"rl": _st(rl), "sink": sink.events_received}


def svc_rl_token_bucket():
    _seed(55)
    from happysimulator.components.rate_limiter import TokenBucketPolicy
    return [_limited(TokenBucketPolicy(capacity=1, refill_rate=3), [0.0, 0.0, THIRD, THIRD, 1.0], per=4),
            _limited(TokenBucketPolicy(capacity=2.5, refill_rate=7, initial_tokens=0.0), [0.0, 1 / 7, 2 / 7, T3], per=3),
            _limited(TokenBucketPolicy(capacity=1, refill_rate=1 / ODD), [0.0, ODD, 2 * ODD], per=2),
            _limited(TokenBucketPolicy(capacity=3, refill_rate=1e9 / 3), [0.0, NS], per=10, end=1.0),
            _limited(TokenBucketPolicy(capacity=5, refill_rate=11), [0.0], per=5, end=4.0, rate=30)]


def svc_rl_leaky_bucket():
    _seed(56)
    from happysimulator.components.rate_limiter import LeakyBucketPolicy
    return [_limited(LeakyBucketPolicy(leak_rate=3), [0.0, THIRD, 2 * THIRD, 1.0], per=3),
            _limited(LeakyBucketPolicy(leak_rate=1 / T3), [0.0, T3, 2 * T3, 0.9], per=2),
            _limited(LeakyBucketPolicy(leak_rate=7), [k / 7 for k in range(8)], per=2),
            _limited(LeakyBucketPolicy(leak_rate=1 / ODD), [0.0, 0.0], per=3, end=20.0),
            _limited(LeakyBucketPolicy(leak_rate=13), [0.0], per=2, end=4.0, rate=40)]


def svc_rl_sliding_window():
    _seed(57)
    from happysimulator.components.rate_limiter import SlidingWindowPolicy
    return [_limited(SlidingWindowPolicy(window_size_seconds=T3, max_requests=2), [0.0, T3, 2 * T3, 0.9], per=3),
            _limited(SlidingWindowPolicy(window_size_seconds=THIRD, max_requests=1), [0.0, THIRD, 2 * THIRD], per=4),
            _limited(SlidingWindowPolicy(window_size_seconds=ODD, max_requests=3), [0.0, 0.5, ODD], per=5),
            _limited(SlidingWindowPolicy(window_size_seconds=3 * NS, max_requests=1), [0.0, NS], per=6, end=1.0),
            _limited(SlidingWindowPolicy(window_size_seconds=SEVEN / 7, max_requests=4), [0.0], per=2, end=4.0, rate=60)]


def svc_rl_fixed_window_boundaries():
    """Arrivals exactly on window boundaries of float-hostile window sizes."""
    _seed(58)
    from happysimulator.components.rate_limiter import FixedWindowPolicy
    out = []
    for w in (T3, THIRD, ODD, 0.1, 3 * NS):
        out.append(_limited(FixedWindowPolicy(2, window_size=w), [0.0, w, 2 * w, 3 * w, 3 * w + NS], per=3, end=30.0))
    out.append(_limited(FixedWindowPolicy(1, window_size=SEVEN), [0.0], per=4, rate=20, end=6.0))
    return out


def svc_rl_adaptive_feedback():
    _seed(59)
    from happysimulator.components.rate_limiter import AdaptivePolicy, RateAdjustmentReason, RateLimitedEntity
    pol = AdaptivePolicy(initial_rate=9, min_rate=1 / 3, max_rate=30, decrease_factor=0.3, window_size=THIRD)
    sink = Sink("sink")
    rl = RateLimitedEntity("rl", sink, pol, queue_capacity=30)
    c = Call()
    fb = [_call(t, c, (lambda _c, k=k: pol.record_failure(c.now, RateAdjustmentReason.TIMEOUT) if k % 2
                       else pol.record_success(c.now))) for k, t in enumerate([0.2, T3, 0.5, SEVEN, ODD, 1.5])]
    _run([rl, sink, c], _burst(rl, [0.0, 0.0, T3, THIRD, 1.0, 1.0], per=6) + fb, end=15.0)
    return {"rl": _st(rl), "rate": repr(pol.current_rate)}


def svc_rl_queue_overflow_and_null():
    _seed(60)
    from happysimulator.components.rate_limiter import LeakyBucketPolicy, NullRateLimiter
    a = _limited(LeakyBucketPolicy(leak_rate=3), [0.0, 0.0, T3], per=10, cap=4)
    sink = Sink("sink")
    nl = NullRateLimiter("null", sink)
    src = Source.constant(rate=33, target=nl, event_type="req", stop_after=1.0)
    _run([nl, sink], _burst(nl, [0.0, 0.0, THIRD], per=5), end=2.0, sources=[src])
    return [a, sink.events_received]


def _distributed(read, write, limit, window, times, per=2, end=None):
    from happysimulator.components.datastore import KVStore
    from happysimulator.components.rate_limiter import DistributedRateLimiter
    redis = KVStore("redis", read_latency=read, write_latency=write)
    s1, s2 = Sink("s1"), Sink("s2")
    l1 = DistributedRateLimiter("l1", s1, redis, global_limit=limit, window_size=window)
    l2 = DistributedRateLimiter("l2", s2, redis, global_limit=limit, window_size=window, local_threshold=0.5)
    _run([l1, l2, redis, s1, s2], _burst(l1, times, per=per) + _burst(l2, times, per=per), end=end)
    return [_st(l1), _st(l2), s1.events_received + s2.events_received]


def svc_rl_distributed_zero_store_latency():
    _seed(61)
    return _distributed(0.0, 0.0, 5, T3, [0.0, 0.0, T3, 2 * T3, 0.9, 1.0])


def svc_rl_distributed_store_latency():
    """The documented configuration: a backing store with non-zero read/write latency."""
    _seed(62)
    return [_distributed(0.001, 0.001, 5, 1.0, [0.0, 0.0, 0.5, 1.0, 1.0]),
            _distributed(T3 / 100, THIRD / 100, 3, THIRD, [0.0, THIRD, 2 * THIRD], end=5.0)]


def _inductor(tau, times, per=1, cap=10_000, end=None, rate=None):
    from happysimulator.components.rate_limiter import Inductor
    sink = Sink("sink")
    ind = Inductor("ind", sink, time_constant=tau, queue_capacity=cap)
    srcs = [Source.poisson(rate=rate, target=ind, event_type="req", stop_after=1.0)] if rate else []
    _run([ind, sink], _burst(ind, times, per=per), end=end, sources=srcs)
    return {"ind": _st(ind), "sink": sink.events_received}


def svc_inductor_smoothing():
    _seed(63)
    return [_inductor(1.0, [k * 0.05 for k in range(20)] + [1.0] * 10 + [1.0 + T3]),
            _inductor(THIRD, [0.1, T3, T3, THIRD, SEVEN, SEVEN, ODD], per=2),
            _inductor(T3, [0.05], end=4.0, rate=50), _inductor(ODD, [0.1, 0.2, 0.2, 0.2, 0.2], cap=2)]


def svc_inductor_same_instant_pairs():
    """Bursts of same-instant arrivals a few microseconds apart with a long time constant."""
    _seed(64)
    return _inductor(1.0, [0.0, 0.0, 2e-5, 2e-5, 4e-5, 4e-5, 0.1, 0.1], end=1.0)


# ------------------------------------------------------------------------------------------ server
def svc_server_fixed_concurrency():
    _seed(65)
    sink = Sink("sink")
    out = []
    for conc, lat in ((1, T3), (2, THIRD), (3, ODD / 10), (1, NS), (2, 1.5 * NS)):
        sink = Sink("sink")
        srv = _server("srv", conc, lat, downstream=sink)
        _run([srv, sink], _burst(srv, [0.0, 0.0, lat, 2 * lat, 3 * lat], per=3))
        out.append([_st(srv), sink.events_received])
    return out


def svc_server_chain_no_end_time():
    _seed(66)
    from happysimulator.components.server import Server
    sink = Sink("sink")
    s3 = Server("s3", concurrency=1, service_time=_exp(0.01, 3), downstream=sink)
    s2 = Server("s2", concurrency=2, service_time=ConstantLatency(THIRD / 10), downstream=s3, queue_capacity=5)
    s1 = Server("s1", concurrency=4, service_time=ConstantLatency(T3 / 10), downstream=s2)
    _run([s1, s2, s3, sink], _burst(s1, [0.0, 0.0, 0.03, 0.06, 0.5], per=6))
    return [_st(s1), _st(s2), _st(s3), sink.events_received]


def svc_server_dynamic_concurrency():
    _seed(67)
    from happysimulator.components.server import DynamicConcurrency, Server
    dc = DynamicConcurrency(initial=1, min_limit=1, max_limit=4)
    sink = Sink("sink")
    srv = Server("srv", concurrency=dc, service_time=ConstantLatency(T3), downstream=sink)
    c = Call()
    src = Source.constant(rate=10, target=srv, event_type="req", stop_after=2.0)
    evs = [_call(THIRD, c, lambda _c: dc.scale_up(2)), _call(ODD, c, lambda _c: dc.set_limit(1)),
           _call(1.5, c, lambda _c: dc.scale_up(3)), _call(1.8, c, lambda _c: dc.scale_down(2))]
    _run([srv, sink, c], evs + _burst(srv, [0.0, 0.0], per=3), end=12.0, sources=[src])
    return [_st(srv), sink.events_received]


def svc_server_weighted_concurrency():
    _seed(68)
    from happysimulator.components.server import Server, WeightedConcurrency
    sink = Sink("sink")
    srv = Server("srv", concurrency=WeightedConcurrency(total_capacity=4), service_time=ConstantLatency(THIRD),
                 downstream=sink)
    evs = [_ev(t, srv, "req", weight=w) for t in (0.0, 0.0, THIRD, 1.0) for w in (1, 3, 2, 4, 1)]
    _run([srv, sink], evs, end=30.0)
    return [_st(srv), sink.events_received]


def svc_server_bounded_queue_burst():
    _seed(69)
    from happysimulator.components.server import Server
    sink = Sink("sink")
    srv = Server("srv", concurrency=2, service_time=_exp(T3 / 3, 5), queue_capacity=3, downstream=sink)
    src = Source.poisson(rate=80, target=srv, event_type="req", stop_after=1.0)
    _run([srv, sink], _burst(srv, [0.0, 0.0, 0.0, T3], per=5), end=5.0, sources=[src])
    return [_st(srv), sink.events_received]


def _async(io_handler, cpu, times, per=3, max_conn=10000, end=None):
    from happysimulator.components.server import AsyncServer
    sink = Sink("sink")
    box = {}
    h = (lambda ev: io_handler(ev, box["srv"], sink)) if io_handler else None
    srv = box["srv"] = AsyncServer("async", max_connections=max_conn, cpu_work_distribution=ConstantLatency(cpu),
                                   io_handler=h)
    _run([srv, sink], _burst(srv, times, per=per), end=end)
    return [_st(srv), sink.events_received, srv.peak_connections]


def svc_async_server_cpu_only():
    _seed(70)
    return [_async(None, T3 / 100, [0.0, 0.0, 0.001, 0.5]), _async(None, 0.0, [0.0, 0.0, NS]),
            _async(None, THIRD / 10, [0.0, 0.0], per=5, max_conn=3, end=5.0), _async(None, NS, [0.0, NS, 2 * NS], per=4)]


def svc_async_server_io_events():
    """I/O handler that answers immediately with an event for a downstream sink."""
    _seed(71)
    return _async(lambda ev, srv, sink: [Event(time=srv.now, event_type="resp", target=sink)], T3 / 30,
                  [0.0, 0.0, 0.01, THIRD])


def svc_async_server_io_wait_with_cpu_queue():
    """Generator I/O phase (non-zero wait) while other requests are queued for the CPU."""
    _seed(72)

    def io(ev, srv, sink):
        yield THIRD / 10
        return [Event(time=srv.now, event_type="resp", target=sink)]
    return [_async(io, T3 / 100, [0.0, 0.0, 0.002], per=3), _async(io, 0.0, [0.0, 0.5], per=2, end=3.0)]


def svc_async_server_io_wait_no_queue():
    _seed(73)

    def io(ev, srv, sink):
        yield T3 / 3
        return None
    return _async(io, 0.001, [0.0, 0.5, 1.0, 1.5], per=1)


def svc_thread_pool_tasks():
    _seed(74)
    from happysimulator.components.server import ThreadPool
    tp = ThreadPool("tp", num_workers=3, default_processing_time=T3 / 3)
    tp2 = ThreadPool("tp2", num_workers=1, queue_capacity=2,
                     processing_time_extractor=lambda e: (THIRD, ODD / 10, NS, 0.0)[e.context["metadata"]["seq"] % 4])
    evs = [_ev(t, tp, "task", processing_time=p) for t in (0.0, 0.0, T3, 1.0) for p in (T3, THIRD, 0.0, NS, SEVEN)]
    evs += [_ev(0.5, tp, "task")] + _burst(tp2, [0.0, 0.0, THIRD, 1.0], per=3)
    sub = tp.submit(_ev(0.25, tp2, "task", processing_time=ODD))
    _run([tp, tp2], evs + [sub])
    return [_st(tp), _st(tp2)]


def svc_thread_pool_poisson_end_time():
    _seed(75)
    from happysimulator.components.server import ThreadPool
    tp = ThreadPool("tp", num_workers=2, default_processing_time=THIRD / 10)
    src = Source.poisson(rate=70, target=tp, event_type="task", stop_after=1.0)
    _run([tp], [], end=1.5, sources=[src])
    return _st(tp)


def svc_full_stack():
    """client -> gateway -> sidecar -> load balancer -> rate limited servers, all latencies non-zero."""
    _seed(76)
    from happysimulator.components.client import Client, ExponentialBackoff
    from happysimulator.components.load_balancer import LeastConnections, LoadBalancer
    from happysimulator.components.microservice import APIGateway, RouteConfig, Sidecar
    from happysimulator.components.rate_limiter import RateLimitedEntity, TokenBucketPolicy
    servers = [_server(f"s{i}", 1, (T3 / 3, THIRD / 3)[i]) for i in range(2)]
    lb = LoadBalancer("lb", backends=servers, strategy=LeastConnections())
    rl = RateLimitedEntity("rl", lb, TokenBucketPolicy(capacity=2, refill_rate=7), queue_capacity=5)
    sc = Sidecar("sc", rl, request_timeout=T3, max_retries=1, retry_base_delay=THIRD / 3)
    gw = APIGateway("gw", {"/x": RouteConfig("x", [sc], timeout=SEVEN)}, auth_latency=T3 / 100,
                    route_extractor=lambda e: "/x")
    c = Client("c", gw, timeout=ODD, retry_policy=ExponentialBackoff(3, T3 / 3, SEVEN))
    return [_client_run(c, [gw, sc, rl, lb, *servers], per=3, end=30.0), _st(gw), _st(sc), _st(lb)]


# ------------------------------------------------------------------- sub-nanosecond periods
# A positive period below the clock resolution (5e-10 s) passes every `> 0` validation and truncates
# to a zero Duration.  All activity of these scenarios lies within a few microseconds, so a component
# that keeps moving forward in 1 ns ticks finishes after a few thousand deliveries.
SUBNS = 5e-10
US = 1e-6


def svc_subns_health_checker():
    _seed(77)
    from happysimulator.components.load_balancer import HealthChecker, LoadBalancer
    lb = LoadBalancer("lb")
    hc = HealthChecker("hc", lb, interval=9e-10, timeout=SUBNS)
    _run([lb, hc], [hc.start()], end=2 * US)
    return _st(hc)


def svc_subns_autoscaler():
    _seed(78)
    from happysimulator.components.deployment import AutoScaler
    lb, servers = _lb(1, 1, US / 10)
    sc = AutoScaler("as", lb, lambda name: _server(name, 1, US / 10), evaluation_interval=SUBNS)
    _run([lb, *servers, sc], [sc.start(), *_burst(lb, [0.0, US], per=3)], end=3 * US)
    return _st(sc)


def svc_subns_canary():
    _seed(79)
    return _canary([(0.5, US), (1.0, US / 2)], SUBNS, rate=10)


def svc_subns_outbox():
    _seed(80)
    return _outbox(SUBNS, 2, 0.0, times=(0.0, US / 10, US), end=3 * US)


def svc_subns_idempotency_cleanup():
    _seed(81)
    st, tgt = _idem(US, SUBNS, US / 10)
    _run([st, tgt], _burst(st, [0.0, US / 2], per=2), end=3 * US)
    return _st(st)


def svc_subns_fixed_window():
    _seed(82)
    from happysimulator.components.rate_limiter import FixedWindowPolicy
    return _limited(FixedWindowPolicy(1, window_size=SUBNS), [0.0, US / 10], per=3, end=10 * US)


SCENARIOS = {k: v for k, v in list(globals().items()) if k.startswith("svc_") and callable(v)}


def svc_arrivals_tied_with_completions():
    """Clients with think time: requests are created ahead of time and stamped for exactly the instants at
    which in-service work completes (k * service time), while other requests are still queued - for
    AsyncServer and for Server with one and two workers."""
    import random as _r
    from happysimulator import Entity, Event, Instant, Simulation, Sink
    from happysimulator.components.server import Server
    from happysimulator.components.server.async_server import AsyncServer
    from happysimulator.distributions.constant import ConstantLatency

    class Dispatcher(Entity):
        def __init__(self, name, server, plan):
            super().__init__(name)
            self.server, self.plan = server, plan

        def handle_event(self, event):
            k = event.context["k"]
            return [Event(time=self.now + d, event_type="Request", target=self.server,
                          context={"metadata": {"rid": f"{k}-{i}"}}) for i, d in enumerate(self.plan[k])]

    out = {}
    S = 0.05
    for tag, mk in (("async", lambda: AsyncServer(name="srv", cpu_work_distribution=ConstantLatency(S))),
                    ("server1", lambda: Server("srv", concurrency=1, service_time=ConstantLatency(S), downstream=Sink("sink"))),
                    ("server2", lambda: Server("srv", concurrency=2, service_time=ConstantLatency(S), downstream=Sink("sink")))):
        _r.seed(91)
        srv = mk()
        # burst at 0 (three requests stamped 0, 10 ms, 20 ms), then stragglers created at 0.07 / 0.12 s and
        # stamped for 0.10 / 0.15 / 0.20 s = completion instants of the queued work
        plan = {0: [0.0, 0.01, 0.02], 1: [0.03, 0.08], 2: [0.03, 0.08, 0.13]}
        d = Dispatcher("disp", srv, plan)
        ents = [srv, d] + ([srv.downstream] if getattr(srv, "downstream", None) is not None else [])
        sim = Simulation(entities=ents, end_time=Instant.from_seconds(5.0))
        sim.schedule(Event(time=Instant.Epoch, event_type="burst", target=d, context={"k": 0}))
        sim.schedule(Event(time=Instant.from_seconds(0.07), event_type="late", target=d, context={"k": 1}))
        sim.schedule(Event(time=Instant.from_seconds(0.12), event_type="late", target=d, context={"k": 2}))
        sim.run()
        st = getattr(srv, "stats", None)
        out[tag] = getattr(st, "requests_completed", None)
    return out


SCENARIOS["svc_arrivals_tied_with_completions"] = svc_arrivals_tied_with_completions
