"""C07 scenario corpus, "ops" families: industrial, infrastructure, scheduling, behavior, advertising,
sketching (components/sketching) and queue_policies.

Every scenario builds a small model from library components with fixed seeds and runs one or more
Simulations under the process-wide recorder (harness/simrec.py).  Parameters are deliberately hostile:
non-zero latencies, float-hostile durations (0.1*3, 1/3, 1.001, 0.7, 1e-9-adjacent), timeouts shorter and
longer than the guarded operation, same-instant bursts, arrivals exactly at period boundaries, finite and
absent end_time.  All imports of the library are lazy (inside the functions).
"""
from __future__ import annotations

import random

H3 = 0.1 * 3          # 0.30000000000000004 -> 300000000 ns (truncates)
TH = 1 / 3            # 0.333.. -> 333333333 ns (truncates)
M1 = 1.001            # 1.00099999999999989 -> truncation-prone
P7 = 0.7
NS = 1e-9
HOSTILE = (H3, TH, M1, P7, NS, 0.1 + 0.2, 3 * NS, 2.675)
# nanosecond values n with int((n / 1e9) * 1e9) == n - 1 (float round trip loses one nanosecond)
ODD_NS = (15, 30, 60, 63, 1000000007, 1000000010, 1000000015, 1000000018, 1000000023)


def _seed(n):
    random.seed(n)
    try:
        import numpy as np
        np.random.seed(n)
    except Exception:
        pass


def _T(s):
    from happysimulator import Instant
    return Instant.from_seconds(float(s))


def _sim(entities, end=None, sources=None):
    from happysimulator import Simulation
    kw = {"entities": list(entities)}
    if sources:
        kw["sources"] = list(sources)
    if end is not None:
        kw["end_time"] = _T(end)
    return Simulation(**kw)


def _inject(sim, target, times, etype="Req", ctx=None):
    """Schedule one primary event per entry of `times` (seconds, or ('ns', n) for exact nanoseconds)."""
    from happysimulator import Event, Instant
    for i, t in enumerate(times):
        at = Instant(t[1]) if isinstance(t, tuple) else Instant.from_seconds(float(t))
        c = {"created_at": at, "i": i}
        extra = ctx(i) if callable(ctx) else ctx
        if extra:
            c.update(extra)
        sim.schedule(Event(time=at, event_type=etype, target=target, context=c))


def _source(target, rate, stop, poisson=True, etype="Req", ctx=None, name="src"):
    from happysimulator import Instant, SimpleEventProvider, Source
    ep = SimpleEventProvider(target, etype, Instant.from_seconds(float(stop)), context_fn=ctx)
    mk = Source.poisson if poisson else Source.constant
    return mk(rate=rate, name=name, event_provider=ep)


def _driver(name, body, log=None):
    """An entity whose handle_event runs `body(self, event)` (a generator) - used to call generator APIs."""
    from happysimulator import Entity

    class Driver(Entity):
        def __init__(self, name, body, log):
            super().__init__(name)
            self.body, self.log = body, log if log is not None else []

        def handle_event(self, event):
            r = yield from self.body(self, event)
            self.log.append((self.name, self.now.nanoseconds))
            return r

    return Driver(name, body, log)


def _sink(name="sink"):
    from happysimulator import Sink
    return Sink(name)


def _server(name, service, downstream=None, concurrency=1, policy=None):
    from happysimulator import ConstantLatency
    from happysimulator.components.server import Server
    return Server(name, concurrency=concurrency, service_time=ConstantLatency(service),
                  queue_policy=policy, downstream=downstream)


# ---------------------------------------------------------------------------------------------
# industrial
# ---------------------------------------------------------------------------------------------

def ops_ind_appointment():
    from happysimulator.components.industrial import AppointmentScheduler
    _seed(101)
    sink = _sink()
    srv = _server("teller", P7, sink)
    appts = [0.0, H3, H3, 0.3, TH, M1, P7, 2.0, 2.0, 2.0, 5 * NS]
    ap = AppointmentScheduler("appt", srv, appts, no_show_rate=0.3)
    sim = _sim([ap, srv, sink])
    sim.schedule(ap.start_events())
    sim.run()
    return {"arr": ap.stats.arrivals, "noshow": ap.stats.no_shows, "sink": sink.events_received}


def ops_ind_appointment_walkins_endtime():
    from happysimulator.components.industrial import AppointmentScheduler, ConveyorBelt
    _seed(102)
    sink = _sink()
    belt = ConveyorBelt("belt", sink, transit_time=TH, capacity=3)
    ap = AppointmentScheduler("appt", belt, [k * H3 for k in range(12)], no_show_rate=0.1)
    walk = _source(belt, 7, 3.0, name="walkins")
    sim = _sim([ap, belt, sink], end=2.5, sources=[walk])
    sim.schedule(ap.start_events())
    sim.run()
    return {"moved": belt.stats.items_transported, "rej": belt.stats.items_rejected}


def ops_ind_balking():
    from happysimulator.components.industrial import BalkingQueue
    from happysimulator.components.queue_policy import FIFOQueue
    _seed(103)
    sink = _sink()
    pol = BalkingQueue(FIFOQueue(), balk_threshold=2, balk_probability=0.7)
    srv = _server("srv", TH, sink, policy=pol)
    sim = _sim([srv, sink])
    _inject(sim, srv, [0.0] * 6 + [H3] * 4 + [TH, TH, M1, M1, M1, 2.0])
    sim.run()
    return {"balked": pol.balked, "sink": sink.events_received}


def ops_ind_batch_basic():
    from happysimulator.components.industrial import BatchProcessor
    _seed(104)
    sink = _sink()
    bp = BatchProcessor("bp", sink, batch_size=3, process_time=H3, timeout_s=TH)
    src = _source(bp, 9, 2.0)
    sim = _sim([bp, sink], end=4.0, sources=[src])
    sim.run()
    return {"b": bp.batches_processed, "i": bp.items_processed, "t": bp.timeouts}


def ops_ind_batch_timeout_shorter_than_processing():
    from happysimulator.components.industrial import BatchProcessor
    _seed(105)
    sink = _sink()
    bp = BatchProcessor("bp", sink, batch_size=4, process_time=M1, timeout_s=H3)
    sim = _sim([bp, sink])
    # items keep arriving while an earlier batch is still being processed; bursts at one instant
    _inject(sim, bp, [0.0, 0.1, H3, H3, 0.3, 0.5, 0.5, 0.5, 0.5, P7, M1, M1 + H3, 2.0, 2.0 + TH])
    sim.run()
    return {"b": bp.batches_processed, "i": bp.items_processed, "t": bp.timeouts}


def ops_ind_batch_timeout_longer_and_tiny():
    from happysimulator.components.industrial import BatchProcessor
    _seed(106)
    out = {}
    for key, (pt, to) in {"long": (TH, 5.0), "tiny": (2 * NS, NS), "eq": (H3, H3), "nopt": (0.0, P7)}.items():
        sink = _sink()
        bp = BatchProcessor("bp", sink, batch_size=3, process_time=pt, timeout_s=to)
        sim = _sim([bp, sink], end=None if key != "eq" else 3.0)
        _inject(sim, bp, [0.0, 0.0, NS, 2 * NS, 3 * NS, H3, TH, TH, P7, M1])
        sim.run()
        out[key] = [bp.batches_processed, bp.items_processed, bp.timeouts]
    return out


def ops_ind_breakdown():
    from happysimulator.components.industrial import BreakdownScheduler
    _seed(107)
    sink = _sink()
    srv = _server("machine", 0.05, sink)
    bd = BreakdownScheduler("bd", srv, mean_time_to_failure=P7, mean_repair_time=TH)
    src = _source(srv, 12, 8.0)
    sim = _sim([bd, srv, sink], end=10.0, sources=[src])
    sim.schedule(bd.start_event())
    sim.run()
    return {"n": bd.stats.breakdown_count, "sink": sink.events_received}


def ops_ind_breakdown_no_end_and_tiny():
    from happysimulator.components.industrial import BreakdownScheduler
    _seed(108)
    out = {}
    sink = _sink()
    srv = _server("machine", H3, sink)
    bd = BreakdownScheduler("bd", srv, mean_time_to_failure=0.2, mean_repair_time=0.05)
    sim = _sim([bd, srv, sink])                      # daemon cycle, primaries run out
    sim.schedule(bd.start_event())
    _inject(sim, srv, [0.0, 0.0, TH, P7, M1, 3.0, 3.0])
    sim.run()
    out["noend"] = bd.stats.breakdown_count
    sink = _sink()
    srv = _server("machine", 1e-6, sink)
    bd = BreakdownScheduler("bd", srv, mean_time_to_failure=2e-7, mean_repair_time=3 * NS)
    sim = _sim([bd, srv, sink], end=2e-4)
    sim.schedule(bd.start_event())
    _inject(sim, srv, [k * 1e-5 for k in range(20)])
    sim.run()
    out["tiny"] = bd.stats.breakdown_count
    return out


def ops_ind_router():
    from happysimulator.components.industrial import ConditionalRouter, ConveyorBelt
    _seed(109)
    sink = _sink()
    fast = ConveyorBelt("fast", sink, transit_time=NS)
    slow = ConveyorBelt("slow", sink, transit_time=M1)
    other = ConveyorBelt("other", sink, transit_time=H3)
    r1 = ConditionalRouter.by_context_field("r1", "kind", {"a": fast, "b": slow}, default=other)
    r2 = ConditionalRouter("r2", [(lambda e: e.context["i"] % 2 == 0, r1)], drop_unmatched=True)
    sim = _sim([r1, r2, fast, slow, other, sink])
    _inject(sim, r2, [0.0] * 5 + [H3, TH, TH, P7, M1, M1], ctx=lambda i: {"kind": "abc"[i % 3]})
    sim.run()
    return {"r1": r1.total_routed, "drop": r2.dropped, "sink": sink.events_received}


def ops_ind_conveyor_chain():
    from happysimulator.components.industrial import ConveyorBelt
    _seed(110)
    sink = _sink()
    c3 = ConveyorBelt("c3", sink, transit_time=NS, capacity=1)
    c2 = ConveyorBelt("c2", c3, transit_time=TH, capacity=2)
    c1 = ConveyorBelt("c1", c2, transit_time=H3)
    c0 = ConveyorBelt("c0", c1, transit_time=0.0)
    src = _source(c0, 10, 1.5, poisson=False)
    sim = _sim([c0, c1, c2, c3, sink], end=3.0, sources=[src])
    _inject(sim, c0, [0.0, 0.0, 0.0, H3, H3, 0.3, TH])
    sim.run()
    return {"c2": c2.stats.items_rejected, "c3": c3.stats.items_rejected, "sink": sink.events_received}


def ops_ind_gate_schedule():
    from happysimulator.components.industrial import GateController
    _seed(111)
    out = {}
    for key, end in (("end", 3.0), ("noend", None)):
        sink = _sink()
        gate = GateController("gate", sink, schedule=[(H3, TH), (P7, M1), (2.0, 2.0), (2.5, 2.5 + NS)],
                              initially_open=False, queue_capacity=4)
        sim = _sim([gate, sink], end=end)
        sim.schedule(gate.start_events())
        # arrivals exactly at the open/close boundaries and in bursts while closed
        _inject(sim, gate, [0.0, 0.0, 0.1, 0.3, H3, H3, TH, TH, 0.5, 0.5, 0.5, 0.5, 0.5, 0.5, P7, M1, 1.001,
                            2.0, 2.5, 2.6])
        sim.run()
        out[key] = [gate.stats.passed_through, gate.stats.rejected, gate.stats.open_cycles]
    return out


def ops_ind_gate_programmatic():
    from happysimulator.components.industrial import ConveyorBelt, GateController
    _seed(112)
    sink = _sink()
    belt = ConveyorBelt("belt", sink, transit_time=TH)
    gate = GateController("gate", belt, initially_open=True)

    def body(w, ev):
        yield H3
        yield 0.0, gate.close()
        yield TH
        yield 0.0, gate.open()
        yield M1
        yield 0.0, gate.close()
        yield P7
        return gate.open()
    ctl = _driver("ctl", body)
    src = _source(gate, 15, 3.0)
    sim = _sim([gate, belt, ctl, sink], end=5.0, sources=[src])
    _inject(sim, ctl, [0.0], etype="go")
    sim.run()
    return {"pass": gate.stats.passed_through, "q": gate.stats.queued_while_closed}


def ops_ind_inspection():
    from happysimulator.components.industrial import InspectionStation
    from happysimulator.components.queue_policy import FIFOQueue
    _seed(113)
    ok, bad = _sink("ok"), _sink("bad")
    rework = InspectionStation("rework", ok, bad, inspection_time=NS, pass_rate=0.5)
    st = InspectionStation("insp", ok, rework, inspection_time=TH, pass_rate=P7, policy=FIFOQueue(capacity=5))
    sim = _sim([st, rework, ok, bad])
    _inject(sim, st, [0.0] * 8 + [H3, TH, TH, P7, M1, M1, 4.0])
    sim.run()
    return {"insp": st.inspected, "rework": rework.inspected, "ok": ok.events_received}


def ops_ind_inventory():
    from happysimulator.components.industrial import InventoryBuffer
    _seed(114)
    ful, out_, sup = _sink("ful"), _sink("stockout"), _sink("sup")
    inv = InventoryBuffer("inv", initial_stock=6, reorder_point=3, order_quantity=5, lead_time=P7,
                          supplier=sup, downstream=ful, stockout_target=out_)
    src = _source(inv, 9, 4.0, ctx=lambda t, n: {"created_at": t, "quantity": 1 + n % 3})
    sim = _sim([inv, ful, out_, sup], end=6.0, sources=[src])
    sim.run()
    return {"re": inv.stats.reorders, "so": inv.stats.stockouts, "stock": inv.stock}


def ops_ind_inventory_zero_lead_time():
    """Instant replenishment (lead_time=0): the replenish event is stamped via a float round trip of now."""
    from happysimulator.components.industrial import InventoryBuffer
    _seed(115)
    ful = _sink("ful")
    inv = InventoryBuffer("inv", initial_stock=2, reorder_point=1, order_quantity=2, lead_time=0.0, downstream=ful)
    sim = _sim([inv, ful])
    _inject(sim, inv, [("ns", n) for n in ODD_NS] + [2.0, 2.5, 3.0], etype="Consume")
    sim.run()
    return {"re": inv.stats.reorders, "so": inv.stats.stockouts, "stock": inv.stock}


def ops_ind_inventory_tiny_lead_time():
    from happysimulator.components.industrial import InventoryBuffer
    _seed(116)
    out = {}
    for lt in (NS, 3 * NS, H3 * 1e-9):
        inv = InventoryBuffer("inv", initial_stock=1, reorder_point=1, order_quantity=1, lead_time=lt)
        sim = _sim([inv], end=4.0)
        _inject(sim, inv, [("ns", n) for n in ODD_NS] + [H3, TH, M1], etype="Consume")
        sim.run()
        out[repr(lt)] = [inv.stats.reorders, inv.stats.stockouts]
    return out


def ops_ind_perishable():
    from happysimulator.components.industrial import PerishableInventory
    _seed(117)
    ful, waste = _sink("ful"), _sink("waste")
    inv = PerishableInventory("pinv", initial_stock=8, shelf_life_s=M1, spoilage_check_interval_s=TH,
                              reorder_point=3, order_quantity=6, lead_time=H3, downstream=ful,
                              waste_target=waste)
    src = _source(inv, 5, 6.0)
    sim = _sim([inv, ful, waste], end=8.0, sources=[src])
    sim.schedule(inv.start_event())
    sim.run()
    return {"sp": inv.stats.total_spoiled, "re": inv.stats.reorders, "so": inv.stats.stockouts}


def ops_ind_perishable_no_end_boundary():
    from happysimulator.components.industrial import PerishableInventory
    _seed(118)
    waste = _sink("waste")
    inv = PerishableInventory("pinv", initial_stock=5, shelf_life_s=H3, spoilage_check_interval_s=H3,
                              reorder_point=2, order_quantity=4, lead_time=TH, waste_target=waste,
                              initial_stock_time=0.0)
    sim = _sim([inv, waste])                       # spoilage sweeps are daemon events
    sim.schedule(inv.start_event())
    # demand exactly at sweep instants (k * 0.30000000000000004) and at expiry instants
    _inject(sim, inv, [0.0, H3, H3, 2 * H3, 0.6, 3 * H3, 0.9, TH + H3, M1, 2.0, 2.0, 2.0, 3.0])
    sim.run()
    return {"sp": inv.stats.total_spoiled, "re": inv.stats.reorders, "so": inv.stats.stockouts}


def ops_ind_perishable_zero_lead_time():
    from happysimulator.components.industrial import PerishableInventory
    _seed(119)
    inv = PerishableInventory("pinv", initial_stock=2, shelf_life_s=5.0, spoilage_check_interval_s=P7,
                              reorder_point=1, order_quantity=2, lead_time=0.0)
    sim = _sim([inv], end=4.0)
    sim.schedule(inv.start_event())
    _inject(sim, inv, [("ns", n) for n in ODD_NS] + [2.0, 2.5, 3.0], etype="Consume")
    sim.run()
    return {"re": inv.stats.reorders, "so": inv.stats.stockouts, "stock": inv.stock}


def ops_ind_pooled_cycle():
    from happysimulator.components.industrial import PooledCycleResource
    _seed(120)
    out = {}
    for key, (cyc, end) in {"third": (TH, None), "ns": (NS, None), "zero": (0.0, 2.0), "m1": (M1, 2.5)}.items():
        sink = _sink()
        pool = PooledCycleResource("pool", pool_size=2, cycle_time=cyc, downstream=sink, queue_capacity=4)
        sim = _sim([pool, sink], end=end)
        _inject(sim, pool, [0.0] * 9 + [TH, TH, TH, 2 * TH, P7, M1, M1])
        sim.run()
        out[key] = [pool.completed, pool.rejected, pool.queued]
    return out


def ops_ind_preemptible():
    from happysimulator.components.industrial import PreemptibleResource
    _seed(121)
    res = PreemptibleResource("res", capacity=2)
    pre = []

    def body(w, ev):
        prio, hold = ev.context["prio"], ev.context["hold"]
        g = yield res.acquire(1, priority=prio, preempt=ev.context["pre"], on_preempt=lambda: pre.append(w.name))
        yield hold
        g.release()
        if g.preempted:          # retry once, politely
            g2 = yield res.acquire(1, priority=prio, preempt=False)
            yield hold / 2
            g2.release()
    ws = [_driver(f"w{i}", body) for i in range(7)]
    sim = _sim([res, *ws])
    for i, w in enumerate(ws):
        _inject(sim, w, [(0.0, 0.0, 0.0, H3, H3, TH, P7)[i]], etype="go",
                ctx={"prio": float(7 - i), "hold": HOSTILE[i % 4], "pre": i % 3 != 1})
    sim.run()
    st = res.stats
    return {"acq": st.acquisitions, "rel": st.releases, "pre": st.preemptions, "cont": st.contentions}


def ops_ind_reneging():
    from happysimulator import Event
    from happysimulator.components.industrial import RenegingQueuedResource
    _seed(122)

    class Teller(RenegingQueuedResource):
        def __init__(self, name, reneged_target, patience, served_to, svc):
            super().__init__(name, reneged_target=reneged_target, default_patience_s=patience)
            self.served_to, self.svc, self.busy = served_to, svc, False

        def has_capacity(self):
            return not self.busy

        def _handle_served_event(self, event):
            self.busy = True
            try:
                yield self.svc
            finally:
                self.busy = False
            return [Event(time=self.now, event_type="Served", target=self.served_to, context=event.context)]

    out = {}
    for key, (pat, svc) in {"short": (H3, P7), "long": (5.0, TH), "eq": (TH, TH), "ns": (NS, M1)}.items():
        gone, done = _sink("gone"), _sink("done")
        t = Teller("teller", gone, pat, done, svc)
        sim = _sim([t, gone, done])
        _inject(sim, t, [0.0] * 5 + [H3, TH, TH, P7, M1],
                ctx=lambda i: {"patience_s": 2 * TH} if i % 4 == 3 else {})
        sim.run()
        out[key] = [t.served, t.reneged]
    return out


def ops_ind_shifted_server():
    from happysimulator.components.industrial import Shift, ShiftedServer, ShiftSchedule
    _seed(123)
    sink = _sink()
    sched = ShiftSchedule([Shift(0.0, 1.0, 2), Shift(1.0, 2.0, 0), Shift(2.0, 3.5, 1)], default_capacity=1)
    srv = ShiftedServer("shifted", sched, service_time=TH, downstream=sink)
    src = _source(srv, 6, 4.0)
    sim = _sim([srv, sink], end=6.0, sources=[src])
    # arrivals exactly at the shift boundaries
    _inject(sim, srv, [0.0, 1.0, 1.0, 2.0, 2.0, 3.5])
    sim.run()
    return {"done": srv.processed, "sink": sink.events_received}


def ops_ind_shifted_server_hostile_boundaries():
    """Shift boundaries whose nanosecond conversion truncates (0.1*3, 1/3, 1.001)."""
    from happysimulator.components.industrial import Shift, ShiftedServer, ShiftSchedule
    _seed(124)
    sink = _sink()
    sched = ShiftSchedule([Shift(0.0, H3, 1), Shift(H3, TH, 0), Shift(TH, M1, 2), Shift(M1, 2.0, 1)],
                          default_capacity=1)
    srv = ShiftedServer("shifted", sched, service_time=0.05, downstream=sink)
    sim = _sim([srv, sink], end=4.0)
    _inject(sim, srv, [0.0, 0.1, 0.2, 0.25, 0.3, H3, TH, 0.5, P7, 1.0, M1, 1.5, 3.0])
    sim.run()
    return {"done": srv.processed, "sink": sink.events_received}


def ops_ind_shifted_server_no_end():
    from happysimulator.components.industrial import Shift, ShiftedServer, ShiftSchedule
    from happysimulator.components.queue_policies import FairQueue
    _seed(125)
    sink = _sink()
    sched = ShiftSchedule([Shift(0.5, 1.5, 3), Shift(2.25, 2.75, 1)], default_capacity=0)
    srv = ShiftedServer("shifted", sched, service_time=P7, downstream=sink,
                        policy=FairQueue(get_flow_id=lambda e: str(e.context["i"] % 3)))
    sim = _sim([srv, sink])
    _inject(sim, srv, [0.0] * 4 + [0.5, 0.5, 1.0, 1.5, 1.5, 2.0, 2.25])
    sim.run()
    return {"done": srv.processed, "left": srv.depth}


def ops_ind_split_merge():
    from happysimulator.components.industrial import SplitMerge
    _seed(126)
    sink = _sink()
    delays = {"a": H3, "b": TH, "c": M1, "d": NS}

    def body(w, ev):
        yield delays[w.name] * (1 + ev.context["i"] % 2)
        ev.context["reply_future"].resolve(w.name)
        return None
    ws = [_driver(n, body) for n in delays]
    sm = SplitMerge("sm", ws, sink)
    sim = _sim([sm, *ws, sink])
    _inject(sim, sm, [0.0, 0.0, 0.0, H3, TH, TH, P7, M1])
    sim.run()
    return {"split": sm.stats.splits_initiated, "merged": sm.stats.merges_completed, "sink": sink.events_received}


def ops_ind_line():
    """Multi-step flow: appointments -> gate -> conveyor -> inspection -> batch -> sink, plus breakdowns."""
    from happysimulator.components.industrial import (AppointmentScheduler, BatchProcessor, BreakdownScheduler,
                                                      ConveyorBelt, GateController, InspectionStation)
    _seed(127)
    sink, scrap = _sink(), _sink("scrap")
    bp = BatchProcessor("bp", sink, batch_size=3, process_time=P7, timeout_s=H3)
    insp = InspectionStation("insp", bp, scrap, inspection_time=TH, pass_rate=0.8)
    belt = ConveyorBelt("belt", insp, transit_time=M1, capacity=6)
    gate = GateController("gate", belt, schedule=[(H3, 1.0), (1.5, 2.5), (3.0, 3.0 + TH)], initially_open=False)
    ap = AppointmentScheduler("appt", gate, [k * 0.1 for k in range(40)], no_show_rate=0.2)
    bd = BreakdownScheduler("bd", insp, mean_time_to_failure=1.0, mean_repair_time=H3)
    out = {}
    for key, end in (("end", 6.0),):
        sim = _sim([ap, gate, belt, insp, bp, bd, sink, scrap], end=end)
        sim.schedule(ap.start_events())
        sim.schedule(gate.start_events())
        sim.schedule(bd.start_event())
        sim.run()
        out[key] = [sink.events_received, scrap.events_received, bp.timeouts]
    return out


# ---------------------------------------------------------------------------------------------
# infrastructure
# ---------------------------------------------------------------------------------------------

def _run_bodies(entities, bodies, starts, end=None, ctx=None):
    """One driver per body; driver k receives a 'go' event at starts[k]."""
    ws = [_driver(f"w{k}", b) for k, b in enumerate(bodies)]
    sim = _sim([*entities, *ws], end=end)
    for k, w in enumerate(ws):
        _inject(sim, w, [starts[k % len(starts)]], etype="go", ctx=(ctx(k) if ctx else None))
    sim.run()
    return ws


def ops_inf_cpu_fair():
    from happysimulator.components.infrastructure import CPUScheduler, FairShare
    _seed(201)
    cpu = CPUScheduler("cpu", policy=FairShare(quantum_s=0.01), context_switch_s=5e-6)

    def mk(k):
        def body(w, ev):
            yield from cpu.execute(f"t{k}", cpu_time_s=0.03 + 0.01 * k, priority=0)
            yield from cpu.execute(f"t{k}b", cpu_time_s=H3 / 10)
        return body
    _run_bodies([cpu], [mk(k) for k in range(5)], [0.0, 0.0, 0.0, 0.015, TH / 10])
    st = cpu.stats
    return {"done": st.tasks_completed, "cs": st.context_switches, "peak": st.peak_queue_depth}


def ops_inf_cpu_priority_hostile_quantum():
    from happysimulator.components.infrastructure import CPUScheduler, PriorityPreemptive
    _seed(202)
    out = {}
    for key, (q, cs, end) in {"third": (TH / 100, NS, None), "h3": (H3 / 10, 0.0, 3.0), "m1": (M1 / 50, 1e-4, None)}.items():
        cpu = CPUScheduler("cpu", policy=PriorityPreemptive(quantum_s=q), context_switch_s=cs)

        def mk(k):
            def body(w, ev):
                yield from cpu.execute(f"t{k}", cpu_time_s=HOSTILE[k % 4] / 10, priority=k % 3)
            return body
        _run_bodies([cpu], [mk(k) for k in range(6)], [0.0, 0.0, 0.0, 0.0, 0.01, q], end=end)
        out[key] = [cpu.stats.tasks_completed, cpu.stats.context_switches]
    return out


def ops_inf_cpu_tiny_quantum():
    from happysimulator.components.infrastructure import CPUScheduler, FairShare, PriorityPreemptive
    _seed(203)
    out = {}
    for key, pol in {"fair": FairShare(quantum_s=NS), "prio": PriorityPreemptive(quantum_s=1.5 * NS)}.items():
        cpu = CPUScheduler("cpu", policy=pol, context_switch_s=NS)

        def mk(k):
            def body(w, ev):
                yield from cpu.execute(f"t{k}", cpu_time_s=(40 + 7 * k) * NS, priority=k)
            return body
        _run_bodies([cpu], [mk(k) for k in range(4)], [0.0, 0.0, 5 * NS, 5 * NS])
        out[key] = [cpu.stats.tasks_completed, cpu.stats.context_switches]
    return out


def ops_inf_disk_profiles():
    from happysimulator.components.infrastructure import HDD, SSD, DiskIO, NVMe
    _seed(204)
    out = {}
    profs = {"hdd": HDD(seek_time_s=H3 / 100, rotational_latency_s=TH / 100), "ssd": SSD(),
             "nvme": NVMe(native_queue_depth=2, overflow_penalty=P7),
             "ssd_tiny": SSD(base_read_latency_s=NS, base_write_latency_s=NS / 2, transfer_rate_mbps=1e9)}
    for key, p in profs.items():
        disk = DiskIO("disk", profile=p)

        def mk(k):
            def body(w, ev):
                for j in range(3):
                    if (k + j) % 2:
                        yield from disk.read(4096 * (1 + k))
                    else:
                        yield from disk.write(512 + 7 * j)
            return body
        _run_bodies([disk], [mk(k) for k in range(8)], [0.0, 0.0, 0.0, 0.0, 1e-5, 1e-5, H3 / 1000, 0.01],
                    end=None if key != "hdd" else 0.05)
        st = disk.stats
        out[key] = [st.reads, st.writes, st.peak_queue_depth]
    return out


def ops_inf_dns():
    from happysimulator.components.infrastructure import DNSRecord, DNSResolver
    _seed(205)
    recs = {f"h{k}.example": DNSRecord(f"h{k}.example", f"10.0.0.{k}", ttl_s=HOSTILE[k % 4]) for k in range(5)}
    dns = DNSResolver("dns", cache_capacity=2, root_latency_s=0.02, tld_latency_s=TH / 10, auth_latency_s=H3 / 10,
                      records=recs)
    got = []

    def mk(k):
        def body(w, ev):
            for j in range(4):
                ip = yield from dns.resolve(f"h{(k + j) % 6}.example")     # h5 is unknown
                got.append(ip)
                yield HOSTILE[(k + j) % 4]      # come back exactly when a TTL expires
        return body
    _run_bodies([dns], [mk(k) for k in range(6)], [0.0, 0.0, 0.0, H3, TH, M1])
    st = dns.stats
    return {"lookups": st.lookups, "hits": st.cache_hits, "exp": st.cache_expirations, "ev": st.cache_evictions}


def ops_inf_dns_tiny_and_zero_ttl():
    from happysimulator.components.infrastructure import DNSRecord, DNSResolver
    _seed(206)
    recs = {"a": DNSRecord("a", "1.1.1.1", ttl_s=NS), "b": DNSRecord("b", "2.2.2.2", ttl_s=0.0),
            "c": DNSRecord("c", "3.3.3.3", ttl_s=3 * NS)}
    dns = DNSResolver("dns", cache_capacity=1, root_latency_s=NS, tld_latency_s=NS / 2, auth_latency_s=2 * NS,
                      records=recs)

    def mk(k):
        def body(w, ev):
            for j in range(6):
                yield from dns.resolve("abc"[(k + j) % 3])
        return body
    _run_bodies([dns], [mk(k) for k in range(4)], [0.0, 0.0, NS, 2 * NS], end=1e-6)
    return {"lookups": dns.stats.lookups, "hits": dns.stats.cache_hits}


def ops_inf_gc_strategies():
    from happysimulator.components.infrastructure import ConcurrentGC, GarbageCollector, GenerationalGC, StopTheWorld
    _seed(207)
    out = {}
    strategies = {"stw": StopTheWorld(base_pause_s=0.05, interval_s=P7),
                  "conc": ConcurrentGC(pause_s=0.005, interval_s=H3),
                  "gen": GenerationalGC(minor_pause_s=0.002, major_pause_s=TH / 10, minor_interval_s=TH,
                                        major_threshold=0.4)}
    for key, s in strategies.items():
        gc = GarbageCollector("gc", strategy=s, heap_pressure=None if key != "stw" else 0.9)

        def body(w, ev):
            for _ in range(5):
                yield 0.1
                yield from gc.pause()
        ws = [_driver(f"w{k}", body) for k in range(3)]
        sim = _sim([gc, *ws], end=5.0)          # the collection cycle is not daemon: needs an end time
        sim.schedule(gc.prime())
        for k, w in enumerate(ws):
            _inject(sim, w, [(0.0, 0.0, H3)[k]], etype="go")
        sim.run()
        out[key] = [gc.stats.collections, gc.stats.minor_collections, gc.stats.major_collections]
    return out


def ops_inf_gc_hostile_interval():
    from happysimulator.components.infrastructure import ConcurrentGC, GarbageCollector, StopTheWorld
    _seed(208)
    out = {}
    for key, (s, end) in {"pause_longer_than_interval": (StopTheWorld(base_pause_s=M1, interval_s=H3), 12.0),
                          "ns_pause": (ConcurrentGC(pause_s=NS, interval_s=TH), 6.0),
                          "ns_both": (ConcurrentGC(pause_s=NS, interval_s=2 * NS), 2e-6)}.items():
        gc = GarbageCollector("gc", strategy=s)
        sim = _sim([gc], end=end)
        sim.schedule(gc.prime())
        sim.run()
        out[key] = gc.stats.collections
    return out


def ops_inf_page_cache():
    from happysimulator.components.infrastructure import PageCache
    _seed(209)
    out = {}
    for key, (rl, wl, end) in {"std": (1e-4, 2e-4, None), "hostile": (TH / 1000, H3 / 1000, None),
                               "ns": (NS, NS, None), "cut": (P7 / 100, M1 / 100, 0.05)}.items():
        cache = PageCache("pc", capacity_pages=4, readahead_pages=2, disk_read_latency_s=rl, disk_write_latency_s=wl)
        rng = random.Random(9)
        races = []

        def mk(k):
            pages = [rng.randrange(12) for _ in range(10)]

            def body(w, ev):
                for j, p in enumerate(pages):
                    try:
                        if (j + k) % 3 == 0:
                            yield from cache.write_page(p)
                        else:
                            yield from cache.read_page(p)
                    except KeyError:
                        # two operations writing back the same dirty victim: PageCache._evict_one deletes it
                        # twice (crash under contention, covered by C16; not a timing matter) - carry on
                        races.append(p)
                if k == 0:
                    yield 1.0           # flush() iterates the page table across yields: only when the others are done
                    yield from cache.flush()
            return body
        _run_bodies([cache], [mk(k) for k in range(5)], [0.0, 0.0, 0.0, rl, 2 * rl], end=end)
        st = cache.stats
        out[key] = [st.hits, st.misses, st.evictions, st.dirty_writebacks, st.readaheads, len(races)]
    return out


def ops_inf_tcp():
    from happysimulator.components.infrastructure import AIMD, BBR, Cubic, TCPConnection
    _seed(210)
    out = {}
    cfgs = {"aimd_rto_short": (AIMD(), 0.05, H3 / 10, 0.2), "cubic_rto_long": (Cubic(), TH / 10, M1, 0.1),
            "bbr": (BBR(), P7 / 10, H3, 0.05), "aimd_ns": (AIMD(), NS, NS, 0.3), "lossy": (Cubic(), 0.01, TH, 0.9)}
    for key, (cc, rtt, rto, loss) in cfgs.items():
        tcp = TCPConnection("tcp", congestion_control=cc, base_rtt_s=rtt, loss_rate=loss,
                            retransmit_timeout_s=rto, initial_cwnd=2.0, initial_ssthresh=8.0)

        def mk(k):
            def body(w, ev):
                yield from tcp.send(1460 * (3 + 5 * k))
                yield from tcp.send(100)
            return body
        _run_bodies([tcp], [mk(k) for k in range(4)], [0.0, 0.0, rtt, H3])
        st = tcp.stats
        out[key] = [st.segments_sent, st.retransmissions]
    return out


def ops_inf_stack():
    """Multi-step flow through the whole infrastructure family: dns -> tcp -> cpu -> page cache -> disk (+ gc)."""
    from happysimulator import Event
    from happysimulator.components.infrastructure import (SSD, CPUScheduler, DiskIO, DNSRecord, DNSResolver,
                                                          GarbageCollector, PageCache, PriorityPreemptive,
                                                          StopTheWorld, TCPConnection)
    _seed(211)
    sink = _sink()
    dns = DNSResolver("dns", records={"svc": DNSRecord("svc", "10.1.1.1", ttl_s=H3)}, root_latency_s=TH / 100)
    tcp = TCPConnection("tcp", base_rtt_s=0.01, loss_rate=0.05, retransmit_timeout_s=H3)
    cpu = CPUScheduler("cpu", policy=PriorityPreemptive(quantum_s=TH / 100))
    cache = PageCache("pc", capacity_pages=3, readahead_pages=1)
    disk = DiskIO("disk", profile=SSD())
    gc = GarbageCollector("gc", strategy=StopTheWorld(base_pause_s=0.01, interval_s=P7))

    def body(w, ev):
        i = ev.context["i"]
        yield from dns.resolve("svc")
        yield from tcp.send(3000 + 500 * i)
        yield from cpu.execute(f"req{i}", cpu_time_s=0.004 * (1 + i % 3), priority=i % 2)
        yield from cache.read_page(i % 5)
        yield from disk.write(4096)
        if i % 4 == 0:
            yield from gc.pause()
        return [Event(time=w.now, event_type="Done", target=sink, context=ev.context)]
    app = _driver("app", body)
    out = {}
    for key, end in (("end", 3.0),):
        sim = _sim([dns, tcp, cpu, cache, disk, gc, app, sink], end=end)
        sim.schedule(gc.prime())
        _inject(sim, app, [0.0, 0.0, 0.0, 0.01, H3, H3, TH, P7, M1, 1.5, 1.5], etype="go")
        sim.run()
        out[key] = sink.events_received
    return out


# ---------------------------------------------------------------------------------------------
# scheduling
# ---------------------------------------------------------------------------------------------

def _job_worker(name, duration):
    def body(w, ev):
        yield duration
        return None
    return _driver(name, body)


def ops_sch_jobs_dag():
    from happysimulator.components.scheduling import JobDefinition, JobScheduler
    _seed(301)
    sch = JobScheduler("cron", tick_interval=1.0)
    ex, tr, ld = _job_worker("extract", 0.5), _job_worker("transform", P7), _job_worker("load", H3)
    sch.add_job(JobDefinition("extract", ex, "Run", interval=3.0, priority=10))
    sch.add_job(JobDefinition("transform", tr, "Run", interval=3.0, priority=5, depends_on=["extract"]))
    sch.add_job(JobDefinition("load", ld, "Run", interval=3.0, priority=1, depends_on=["transform", "missing"]))
    sim = _sim([sch, ex, tr, ld], end=20.0)
    sim.schedule(sch.start())
    sim.run()
    st = sch.stats
    return {"ticks": st.ticks, "trig": st.jobs_triggered, "done": st.jobs_completed, "dep": st.jobs_skipped_dependency}


def ops_sch_jobs_hostile_intervals():
    from happysimulator.components.scheduling import JobDefinition, JobScheduler
    _seed(302)
    out = {}
    for key, (tick, end) in {"h3": (H3, 6.0), "third": (TH, 5.0), "m1": (M1, 12.0), "p7": (P7, 7.0)}.items():
        sch = JobScheduler("cron", tick_interval=tick)
        slow = _job_worker("slow", 4 * tick + NS)           # runs longer than its interval
        fast = _job_worker("fast", NS)
        exact = _job_worker("exact", tick)                  # finishes exactly at a tick
        srv = _server("srvjob", TH / 2)                     # queued target (completion hook fires at enqueue)
        sch.add_job(JobDefinition("slow", slow, "Run", interval=tick, priority=3))
        sch.add_job(JobDefinition("fast", fast, "Run", interval=2 * tick, priority=2, depends_on=["slow"]))
        sch.add_job(JobDefinition("exact", exact, "Run", interval=tick, priority=1))
        sch.add_job(JobDefinition("q", srv, "Run", interval=H3, priority=0, depends_on=["exact"]))
        sim = _sim([sch, slow, fast, exact, srv], end=end)
        sim.schedule(sch.start())
        sim.run()
        st = sch.stats
        out[key] = [st.ticks, st.jobs_triggered, st.jobs_completed, st.jobs_skipped_running]
    return out


def ops_sch_jobs_no_end_stop():
    from happysimulator.components.scheduling import JobDefinition, JobScheduler
    _seed(303)
    sch = JobScheduler("cron", tick_interval=H3)
    a, b = _job_worker("a", TH), _job_worker("b", M1)
    sch.add_job(JobDefinition("a", a, "Run", interval=P7, priority=1))
    sch.add_job(JobDefinition("b", b, "Run", interval=H3, priority=2, depends_on=["a"]))

    def body(w, ev):
        yield 4.0
        sch.disable_job("a")
        yield 1.0
        sch.stop()
        return None
    stopper = _driver("stopper", body)
    sim = _sim([sch, a, b, stopper])                # no end time: ticks are daemon once the jobs are stopped
    sim.schedule(sch.start())
    _inject(sim, stopper, [0.0], etype="go")
    sim.run()
    st = sch.stats
    return {"ticks": st.ticks, "trig": st.jobs_triggered, "done": st.jobs_completed}


def ops_sch_jobs_tiny_tick():
    from happysimulator.components.scheduling import JobDefinition, JobScheduler
    _seed(304)
    out = {}
    for tick in (NS, 1.5 * NS, 3 * NS):
        sch = JobScheduler("cron", tick_interval=tick)
        a = _job_worker("a", 2 * NS)
        sch.add_job(JobDefinition("a", a, "Run", interval=tick))
        sim = _sim([sch, a], end=1e-6)
        sim.schedule(sch.start())
        sim.run()
        out[repr(tick)] = [sch.stats.ticks, sch.stats.jobs_triggered]
    return out


def ops_sch_wsp_burst():
    from happysimulator.components.scheduling import WorkStealingPool
    _seed(305)
    out = {}
    for key, (dflt, end) in {"third": (TH, None), "ns": (NS, None), "zero": (0.0, None), "cut": (M1, 2.0)}.items():
        sink = _sink()
        pool = WorkStealingPool("pool", num_workers=3, downstream=sink, default_processing_time=dflt)
        sim = _sim([pool, sink], end=end)
        _inject(sim, pool, [0.0] * 12 + [H3, H3, TH, P7, M1, M1],
                ctx=lambda i: {"metadata": ({"processing_time": HOSTILE[i % len(HOSTILE)]} if i % 3 else {})})
        sim.run()
        st = pool.stats
        out[key] = [st.tasks_submitted, st.tasks_completed, st.total_steals, sink.events_received]
    return out


def ops_sch_wsp_source():
    from happysimulator.components.scheduling import WorkStealingPool
    _seed(306)
    sink = _sink()
    pool = WorkStealingPool("pool", num_workers=4, downstream=sink, default_processing_time=H3)
    rng = random.Random(4)
    src = _source(pool, 25, 3.0, ctx=lambda t, n: {"created_at": t, "metadata": {"processing_time": rng.choice(HOSTILE[:4]) / 2}})
    one = WorkStealingPool("one", num_workers=1, downstream=pool, default_processing_time=0.01)
    src2 = _source(one, 10, 3.0, poisson=False, name="src2")
    sim = _sim([pool, one, sink], end=5.0, sources=[src, src2])
    sim.run()
    st = pool.stats
    return {"sub": st.tasks_submitted, "done": st.tasks_completed, "steals": st.total_steals}


# ---------------------------------------------------------------------------------------------
# behavior
# ---------------------------------------------------------------------------------------------

def _util(choice, ctx):
    base = {"buy": 0.6, "wait": 0.4, "switch": 0.2, "accept": 0.5, "protest": 0.3, "ignore": 0.1}.get(choice.action, 0.0)
    return base + 0.3 * ctx.traits.get("openness") - 0.2 * ctx.state.needs.get("money", 0.0)


def _notify(sink, etype="Acted"):
    from happysimulator import Event

    def handler(agent, choice, event):
        return Event(time=agent.now, event_type=etype, target=sink,
                     context={"created_at": event.context.get("created_at", agent.now), "who": agent.name})
    return handler


def ops_beh_agent_direct():
    from happysimulator import Event, Instant
    from happysimulator.components.behavior import Agent, AgentState, PersonalityTraits, UtilityModel
    _seed(401)
    out = {}
    for key, (hb, delay, end) in {"h3": (H3, TH, 6.0), "third": (TH, 0.0, None), "m1": (M1, NS, 5.0),
                                  "p7_noend": (P7, H3, None)}.items():
        sink = _sink()
        ag = Agent("alice", traits=PersonalityTraits.big_five(openness=0.9), state=AgentState(needs={"money": 0.2}),
                   decision_model=UtilityModel(_util, temperature=0.5), seed=5, heartbeat_interval=hb,
                   action_delay=delay)
        for a in ("buy", "wait"):
            ag.on_action(a, _notify(sink))
        sim = _sim([ag, sink], end=end)
        hbe = ag.schedule_first_heartbeat(Instant.Epoch)
        if hbe is not None:
            sim.schedule(hbe)
        for i, t in enumerate([0.0, 0.0, hb, hb, 2 * hb, H3, TH, P7, M1, 3.0, 3.0]):
            sim.schedule(Event(time=_T(t), event_type="Offer", target=ag,
                               context={"metadata": {"choices": ["buy", "wait", "switch"], "valence": 0.3 - 0.1 * i,
                                                     "source": "shop"}}))
        sim.run()
        out[key] = [ag.stats.events_received, ag.stats.decisions_made, sink.events_received]
    return out


def ops_beh_env_broadcast():
    from happysimulator.components.behavior import (Environment, Population, Rule, RuleBasedModel, broadcast_stimulus,
                                                    policy_announcement, price_change, targeted_stimulus)
    _seed(402)
    sink = _sink()
    model = RuleBasedModel([Rule(lambda c: c.stimulus.get("new_price", 99) < 10, "buy", priority=5),
                            Rule(lambda c: c.state.mood < 0.45, "protest", priority=3)], default_action="wait")
    pop = Population.uniform(12, decision_model=model, graph_type="small_world", seed=7)
    for a in pop.agents:
        a.action_delay = HOSTILE[len(a.name) % 4] / 3
        for act in ("buy", "wait", "protest", "accept", "ignore", "go"):
            a.on_action(act, _notify(sink))
    env = Environment("env", agents=pop.agents, social_graph=pop.social_graph, shared_state={"price": 12.0}, seed=3)
    sim = _sim([env, *pop.agents, sink], end=8.0)
    sim.schedule(price_change(0.0, env, "widget", 12.0, 9.0))
    sim.schedule(price_change(H3, env, "widget", 9.0, 14.0))
    sim.schedule(price_change(H3, env, "gadget", 5.0, 4.0))            # same instant
    sim.schedule(policy_announcement(TH, env, "tax", "new tax", valence=-0.8))
    sim.schedule(targeted_stimulus(P7, env, [a.name for a in pop.agents[:4]] + ["nobody"], "Ping", choices=["go", "wait"]))
    sim.schedule(broadcast_stimulus(M1, env, "Flash", choices=[{"action": "buy"}, "wait"], new_price=1.0))
    sim.schedule(broadcast_stimulus(_T(2.0), env, "NoChoices"))
    sim.run()
    return {"b": env.stats.broadcasts_sent, "t": env.stats.targeted_sends, "dec": pop.stats.total_decisions,
            "sink": sink.events_received}


def ops_beh_influence_models():
    from happysimulator import Event
    from happysimulator.components.behavior import (BoundedConfidenceModel, DeGrootModel, Environment, Population,
                                                    VoterModel, influence_propagation)
    _seed(403)
    out = {}
    for key, (model, graph, end) in {"degroot": (DeGrootModel(self_weight=0.3), "complete", None),
                                     "bounded": (BoundedConfidenceModel(epsilon=0.4), "small_world", 5.0),
                                     "voter": (VoterModel(), "random", None)}.items():
        pop = Population.uniform(15, graph_type=graph, seed=11)
        rng = random.Random(2)
        for a in pop.agents:
            a.state.beliefs["topic"] = rng.uniform(-1, 1)
        env = Environment("env", agents=pop.agents, social_graph=pop.social_graph, influence_model=model, seed=4)
        sim = _sim([env, *pop.agents], end=end)
        for t in [0.0, 0.0, H3, TH, TH, P7, M1, 2.0, 3.0, 4.0]:
            sim.schedule(influence_propagation(t, env, "topic"))
        sim.schedule(Event(time=_T(1.5), event_type="StateChange", target=env,
                           context={"metadata": {"key": "price", "value": 3}}))
        sim.run()
        out[key] = [env.stats.influence_rounds, sum(a.stats.social_messages_received for a in pop.agents)]
    return out


def ops_beh_segments_composite():
    from happysimulator.components.behavior import (AgentState, BoundedRationalityModel, CompositeModel,
                                                    DemographicSegment, Environment, NormalTraitDistribution,
                                                    Population, SocialInfluenceModel, UniformTraitDistribution,
                                                    UtilityModel, broadcast_stimulus)
    _seed(404)
    sink = _sink()
    segs = [DemographicSegment("innovators", 0.25,
                               NormalTraitDistribution({"openness": 0.8, "agreeableness": 0.4}),
                               lambda: BoundedRationalityModel(_util, aspiration=0.7), seed=1),
            DemographicSegment("majority", 0.6, UniformTraitDistribution(["openness", "agreeableness"]),
                               lambda: SocialInfluenceModel(_util, conformity_weight=0.8),
                               lambda: AgentState(mood=0.3, needs={"money": 0.6})),
            DemographicSegment("laggards", 0.15, None,
                               lambda: CompositeModel([(UtilityModel(_util), 1.0),
                                                       (BoundedRationalityModel(_util, 0.2), 0.5)]))]
    pop = Population.from_segments(20, segs, graph_type="random", seed=9)
    for k, a in enumerate(pop.agents):
        a.action_delay = (0.0, NS, H3, TH)[k % 4]
        for act in ("buy", "wait", "switch"):
            a.on_action(act, _notify(sink))
    env = Environment("env", agents=pop.agents, social_graph=pop.social_graph, seed=6)
    sim = _sim([env, *pop.agents, sink])
    for t in [0.0, H3, H3, TH, P7, M1]:
        sim.schedule(broadcast_stimulus(t, env, "Offer", choices=["buy", "wait", "switch"], valence=0.2))
    sim.run()
    return {"dec": pop.stats.total_decisions, "sink": sink.events_received, "size": pop.size}


def ops_beh_heartbeat_tiny_and_chain():
    from happysimulator import Event, Instant
    from happysimulator.components.behavior import Agent, UtilityModel
    _seed(405)
    sink = _sink()
    agents = [Agent(f"a{k}", decision_model=UtilityModel(_util), seed=k, heartbeat_interval=(NS, 1.5 * NS, 3 * NS)[k],
                    action_delay=(2 * NS, 0.0, NS)[k]) for k in range(3)]

    def forward(k):
        def handler(agent, choice, event):
            hops = event.context["metadata"].get("hops", 0)
            if hops >= 6:
                return Event(time=agent.now, event_type="Done", target=sink)
            return Event(time=agent.now, event_type="Rumor", target=agents[(k + 1) % 3],
                         context={"metadata": {"choices": ["buy"], "hops": hops + 1}})
        return handler
    for k, a in enumerate(agents):
        a.on_action("buy", forward(k))
    sim = _sim([*agents, sink], end=1e-6)
    for a in agents:
        sim.schedule(a.schedule_first_heartbeat(Instant.Epoch))
    for t in (0.0, 0.0, 10 * NS, 1e-7):
        sim.schedule(Event(time=_T(t), event_type="Rumor", target=agents[0],
                           context={"metadata": {"choices": ["buy"], "hops": 0}}))
    sim.run()
    return {"recv": [a.stats.events_received for a in agents], "sink": sink.events_received}


# ---------------------------------------------------------------------------------------------
# advertising
# ---------------------------------------------------------------------------------------------

def _tiers():
    from happysimulator.components.advertising import AudienceTier
    return [AudienceTier("Niche", 100, 10.0), AudienceTier("Mid", 400, 25.0), AudienceTier("Broad", 1000, 40.0)]


def ops_adv_basic():
    from happysimulator import Event
    from happysimulator.components.advertising import AdPlatform, Advertiser
    _seed(501)
    plat = AdPlatform("Meta")
    adv = Advertiser("PosterShop", product_price=100.0, production_cost=50.0, tiers=_tiers(), platform=plat,
                     evaluation_interval=1.0)
    sim = _sim([plat, adv], end=12.0)
    sim.schedule(adv.start_events())
    for k, s in enumerate([0.9, 0.7, 0.45, 0.0, 1.0]):
        sim.schedule(Event(time=_T(1.0 + 2 * k), event_type="SentimentChange", target=adv,   # exactly at evaluations
                           context={"metadata": {"sentiment": s}}))
    sim.run()
    return {"periods": adv.stats.periods_evaluated, "shutoffs": adv.stats.tier_shutoff_events,
            "rev": plat.stats.revenue_events}


def ops_adv_hostile_intervals():
    from happysimulator import Event
    from happysimulator.components.advertising import AdPlatform, Advertiser
    _seed(502)
    plat = AdPlatform("Google")
    advs = [Advertiser(f"adv{k}", product_price=80.0 + k, production_cost=30.0, tiers=_tiers(), platform=plat,
                       evaluation_interval=iv) for k, iv in enumerate([H3, TH, M1, P7, 0.1 + 0.2, 2.675])]
    sim = _sim([plat, *advs], end=9.0)
    for a in advs:
        sim.schedule(a.start_events())
    for k in range(12):
        sim.schedule(Event(time=_T(k * H3), event_type="SentimentChange", target=advs[k % len(advs)],
                           context={"metadata": {"sentiment": (k * 0.37) % 1.0}}))
    sim.run()
    return {"periods": [a.stats.periods_evaluated for a in advs], "rev": plat.stats.revenue_events}


def ops_adv_tiny_interval():
    from happysimulator.components.advertising import AdPlatform, Advertiser
    _seed(503)
    out = {}
    for iv in (1.5 * NS, 3 * NS, 1e-6 / 3):          # exactly 1 ns: see ops_adv_one_ns_interval
        plat = AdPlatform("P")
        adv = Advertiser("a", product_price=100.0, production_cost=50.0, tiers=_tiers(), platform=plat,
                         evaluation_interval=iv)
        sim = _sim([plat, adv], end=2e-6)
        sim.schedule(adv.start_events())
        sim.run()
        out[repr(iv)] = adv.stats.periods_evaluated
    return out


# ---------------------------------------------------------------------------------------------
# sketching (entity wrappers)
# ---------------------------------------------------------------------------------------------

def ops_sk_topk_collector():
    from happysimulator.components.sketching import TopKCollector
    _seed(601)
    rng = random.Random(8)
    col = TopKCollector("top", k=5, value_extractor=lambda e: e.context.get("customer"),
                        count_extractor=lambda e: e.context.get("n", 1), seed=1)
    src = _source(col, 200, 2.0, ctx=lambda t, n: {"created_at": t, "customer": f"c{int(rng.paretovariate(1.2)) % 23}",
                                                    "n": 1 + n % 3})
    sim = _sim([col], end=3.0, sources=[src])
    _inject(sim, col, [0.0] * 10 + [H3] * 5, ctx={"customer": "burst"})
    _inject(sim, col, [TH], ctx={"customer": None})
    sim.run()
    return {"n": col.events_processed, "top": [str(x.item) for x in col.top(3)]}


def ops_sk_quantile_estimator():
    from happysimulator.components.sketching import QuantileEstimator
    _seed(602)
    est = QuantileEstimator("lat", value_extractor=lambda e: (e.time - e.context["created_at"]).to_seconds()
                            if "created_at" in e.context else None, compression=50, seed=2)
    srv = _server("srv", TH / 10, est, concurrency=2)
    src = _source(srv, 40, 3.0)
    sim = _sim([srv, est], end=5.0, sources=[src])
    _inject(sim, srv, [0.0] * 6 + [H3, TH, M1])
    sim.run()
    s = est.summary()
    return {"n": est.events_processed, "count": s.count, "p50": round(s.p50, 6)}


def ops_sk_sketch_collectors():
    from happysimulator.components.industrial import ConditionalRouter
    from happysimulator.components.sketching import SketchCollector
    from happysimulator.sketching.bloom_filter import BloomFilter
    from happysimulator.sketching.count_min_sketch import CountMinSketch
    from happysimulator.sketching.hyperloglog import HyperLogLog
    _seed(603)
    cms = SketchCollector("cms", CountMinSketch(width=32, depth=3, seed=1), lambda e: e.context.get("key"),
                          weight_extractor=lambda e: 1 + e.context["i"] % 4)
    hll = SketchCollector("hll", HyperLogLog(precision=5, seed=2), lambda e: e.context.get("key"))
    blo = SketchCollector("bloom", BloomFilter(size_bits=256, num_hashes=3, seed=3), lambda e: e.context.get("key"))
    router = ConditionalRouter("fan", [(lambda e: e.context["i"] % 3 == 0, cms), (lambda e: e.context["i"] % 3 == 1, hll)],
                               default=blo)
    sim = _sim([router, cms, hll, blo])
    rng = random.Random(3)
    times = sorted([rng.choice(HOSTILE[:4]) * rng.randrange(1, 6) for _ in range(60)]) + [2.0] * 9
    _inject(sim, router, times, ctx=lambda i: {"key": f"k{i % 17}"})
    sim.run()
    return {"cms": cms.events_processed, "hll": hll.events_processed, "bloom": blo.events_processed,
            "card": hll.sketch.cardinality()}


def ops_adv_one_ns_interval():
    """evaluation_interval = 1 ns: the next evaluation is stamped Instant.from_seconds(now_s + interval)."""
    from happysimulator.components.advertising import AdPlatform, Advertiser
    _seed(504)
    plat = AdPlatform("P")
    adv = Advertiser("a", product_price=100.0, production_cost=50.0, tiers=_tiers(), platform=plat,
                     evaluation_interval=NS)
    sim = _sim([plat, adv], end=2e-6)
    sim.schedule(adv.start_events())
    sim.run()
    return {"periods": adv.stats.periods_evaluated}


def ops_ind_perishable_one_ns_sweep():
    """spoilage_check_interval_s = 1 ns: next sweep stamped Instant.from_seconds(now_s + interval)."""
    from happysimulator.components.industrial import PerishableInventory
    _seed(128)
    inv = PerishableInventory("pinv", initial_stock=3, shelf_life_s=1e-7, spoilage_check_interval_s=NS,
                              reorder_point=1, order_quantity=2, lead_time=5 * NS)
    sim = _sim([inv], end=2e-6)
    sim.schedule(inv.start_event())
    _inject(sim, inv, [0.0, 1e-7, 2e-7, 1e-6], etype="Consume")
    sim.run()
    return {"sp": inv.stats.total_spoiled, "re": inv.stats.reorders}


# ---------------------------------------------------------------------------------------------
# queue_policies (driven inside a Server / QueuedResource)
# ---------------------------------------------------------------------------------------------

def _qp_run(policy_factory, service, times=None, rate=None, stop=2.0, end=None, concurrency=1, ctx=None, sctx=None):
    sink = _sink()
    holder = {}
    pol = policy_factory(lambda: holder["srv"].now)
    srv = _server("srv", service, sink, concurrency=concurrency, policy=pol)
    holder["srv"] = srv
    sources = [_source(srv, rate, stop, ctx=sctx)] if rate else None
    sim = _sim([srv, sink], end=end, sources=sources)
    if times:
        _inject(sim, srv, times, ctx=ctx)
    sim.run()
    return pol, srv, sink


def ops_qp_codel():
    from happysimulator.components.queue_policies import CoDelQueue
    _seed(701)
    pol, srv, sink = _qp_run(lambda clk: CoDelQueue(target_delay=0.005, interval=0.1, clock_func=clk),
                             service=0.05, rate=40, stop=3.0, end=5.0)
    st = pol.stats
    return {"enq": st.enqueued, "deq": st.dequeued, "drop": st.dropped, "sink": sink.events_received}


def ops_qp_codel_hostile():
    from happysimulator.components.queue_policies import CoDelQueue
    _seed(702)
    out = {}
    cfgs = {"ns_target": (NS, TH, None), "h3": (H3 / 10, H3, 4), "interval_lt_target": (P7, NS, None),
            "m1": (M1 / 100, M1 / 10, 3)}
    for key, (tgt, iv, cap) in cfgs.items():
        pol, srv, sink = _qp_run(lambda clk: CoDelQueue(target_delay=tgt, interval=iv, capacity=cap, clock_func=clk),
                                 service=TH / 4, times=[0.0] * 10 + [H3] * 6 + [TH, TH, P7, P7, P7, M1, M1, 2.0, 2.0])
        st = pol.stats
        out[key] = [st.enqueued, st.dequeued, st.dropped, st.capacity_rejected, sink.events_received]
    return out


def ops_qp_red():
    from happysimulator.components.queue_policies import REDQueue
    _seed(703)
    out = {}
    pol, srv, sink = _qp_run(lambda clk: REDQueue(min_threshold=2, max_threshold=6, max_probability=0.5, weight=0.3),
                             service=H3 / 3, rate=30, stop=3.0, end=4.5)
    out["src"] = [pol.stats.enqueued, pol.stats.dropped_probabilistic, pol.stats.dropped_forced, sink.events_received]
    pol, srv, sink = _qp_run(lambda clk: REDQueue(min_threshold=0, max_threshold=1, max_probability=1.0, capacity=2,
                                                  weight=0.9),
                             service=P7, times=[0.0] * 8 + [P7] * 4 + [2 * P7, M1, 3.0])
    out["burst"] = [pol.stats.enqueued, pol.stats.dropped_probabilistic, pol.stats.dropped_forced, sink.events_received]
    return out


def ops_qp_fair():
    from happysimulator.components.queue_policies import FairQueue
    _seed(704)
    pol, srv, sink = _qp_run(lambda clk: FairQueue(get_flow_id=lambda e: e.context["tenant"], max_flows=3,
                                                   per_flow_capacity=4),
                             service=TH / 3, concurrency=2,
                             times=[0.0] * 14 + [H3] * 5 + [TH, P7, M1, M1],
                             ctx=lambda i: {"tenant": f"t{(i * i) % 5}"})
    st = pol.stats
    return {"enq": st.enqueued, "deq": st.dequeued, "rejf": st.rejected_flow_capacity, "rejm": st.rejected_max_flows,
            "sink": sink.events_received}


def ops_qp_wfq():
    from happysimulator.components.queue_policies import WeightedFairQueue
    _seed(705)
    rng = random.Random(5)
    pol, srv, sink = _qp_run(lambda clk: WeightedFairQueue(get_flow_id=lambda e: e.context["tenant"],
                                                           get_weight=lambda f: {"gold": 4, "silver": 2}.get(f, 1),
                                                           capacity=12, per_flow_capacity=6),
                             service=M1 / 20, rate=35, stop=2.5, end=4.0,
                             sctx=lambda t, n: {"created_at": t, "tenant": rng.choice(["gold", "silver", "bronze", "tin"])})
    st = pol.stats
    return {"enq": st.enqueued, "deq": st.dequeued, "rej": st.rejected_capacity, "sink": sink.events_received}


def ops_qp_deadline():
    from happysimulator.components.queue_policies import DeadlineQueue
    _seed(706)
    out = {}
    # deadline shorter than the service time (most expire), longer (none expire), equal, and 1 ns
    for key, (dl, svc) in {"short": (H3, P7), "long": (5.0, TH), "eq": (TH, TH), "ns": (NS, H3)}.items():
        pol, srv, sink = _qp_run(lambda clk: DeadlineQueue(get_deadline=lambda e: e.context["created_at"] + dl,
                                                           capacity=8, clock_func=clk),
                                 service=svc, times=[0.0] * 6 + [H3, H3, TH, TH, P7, M1, M1, 2.0])
        st = pol.stats
        out[key] = [st.enqueued, st.dequeued, st.expired, st.capacity_rejected, sink.events_received]
    return out


def ops_qp_deadline_source_end():
    from happysimulator.components.queue_policies import DeadlineQueue
    _seed(707)
    rng = random.Random(6)
    pol, srv, sink = _qp_run(lambda clk: DeadlineQueue(get_deadline=lambda e: e.context["created_at"] + e.context["slack"],
                                                       clock_func=clk),
                             service=0.04, rate=35, stop=3.0, end=4.0, concurrency=1,
                             sctx=lambda t, n: {"created_at": t, "slack": rng.choice(HOSTILE[:4]) / 3})
    st = pol.stats
    return {"enq": st.enqueued, "deq": st.dequeued, "exp": st.expired, "sink": sink.events_received}


def ops_qp_adaptive_lifo():
    from happysimulator.components.queue_policies import AdaptiveLIFO
    _seed(708)
    pol, srv, sink = _qp_run(lambda clk: AdaptiveLIFO(congestion_threshold=3, capacity=7), service=TH / 2,
                             times=[0.0] * 10 + [H3] * 3 + [TH, P7, P7, M1, 2.0, 2.0, 2.0, 2.0, 2.0])
    st = pol.stats
    return {"enq": st.enqueued, "fifo": st.dequeued_fifo, "lifo": st.dequeued_lifo, "sw": st.mode_switches,
            "sink": sink.events_received}


def ops_qp_balking_over_codel_and_inspection_deadline():
    from happysimulator.components.industrial import BalkingQueue, InspectionStation
    from happysimulator.components.queue_policies import CoDelQueue, DeadlineQueue
    _seed(709)
    pol, srv, sink = _qp_run(lambda clk: BalkingQueue(CoDelQueue(target_delay=TH / 10, interval=H3, clock_func=clk),
                                                      balk_threshold=3, balk_probability=0.5),
                             service=0.08, rate=30, stop=2.0, end=3.5)
    ok, bad = _sink("ok"), _sink("bad")
    holder = {}
    dq = DeadlineQueue(get_deadline=lambda e: e.context["created_at"] + P7, clock_func=lambda: holder["st"].now)
    st = InspectionStation("insp", ok, bad, inspection_time=H3, pass_rate=0.6, policy=dq)
    holder["st"] = st
    sim = _sim([st, ok, bad])
    _inject(sim, st, [0.0] * 5 + [H3, TH, P7, M1])
    sim.run()
    return {"balked": pol.balked, "sink": sink.events_received, "insp": st.inspected, "expired": dq.stats.expired}


# ---------------------------------------------------------------------------------------------
# cross-family multi-step flows
# ---------------------------------------------------------------------------------------------

def ops_x_jobs_drive_gate_inventory():
    from happysimulator.components.industrial import GateController, InventoryBuffer
    from happysimulator.components.scheduling import JobDefinition, JobScheduler
    _seed(801)
    ful, sup = _sink("ful"), _sink("sup")
    gate = GateController("gate", ful, schedule=[(TH, P7), (M1, 2.0)], initially_open=False, queue_capacity=5)
    inv = InventoryBuffer("inv", initial_stock=4, reorder_point=2, order_quantity=3, lead_time=M1, supplier=sup,
                          downstream=gate)
    sch = JobScheduler("cron", tick_interval=TH)
    sch.add_job(JobDefinition("pick", inv, "Consume", interval=H3, priority=2, context={"quantity": 2}))
    sch.add_job(JobDefinition("pick1", inv, "Consume", interval=P7, priority=1, depends_on=["pick"]))
    sim = _sim([sch, inv, gate, ful, sup], end=6.0)
    sim.schedule(sch.start())
    sim.schedule(gate.start_events())
    sim.run()
    return {"trig": sch.stats.jobs_triggered, "re": inv.stats.reorders, "so": inv.stats.stockouts,
            "pass": gate.stats.passed_through}


def ops_x_agents_buy_perishables():
    from happysimulator import Event
    from happysimulator.components.behavior import Environment, Population, UtilityModel, price_change
    from happysimulator.components.industrial import ConveyorBelt, PerishableInventory
    from happysimulator.components.sketching import TopKCollector
    _seed(802)
    top = TopKCollector("top", k=3, value_extractor=lambda e: e.context.get("buyer"))
    belt = ConveyorBelt("belt", top, transit_time=H3, capacity=4)
    inv = PerishableInventory("pinv", initial_stock=6, shelf_life_s=M1, spoilage_check_interval_s=TH, reorder_point=2,
                              order_quantity=5, lead_time=P7, downstream=belt)
    pop = Population.uniform(8, decision_model=UtilityModel(_util, temperature=1.0), graph_type="complete", seed=3)

    def buy(agent, choice, event):
        return Event(time=agent.now, event_type="Consume", target=inv,
                     context={"created_at": agent.now, "quantity": 1 + len(agent.name) % 2, "buyer": agent.name})
    for k, a in enumerate(pop.agents):
        a.action_delay = (TH, 0.0, H3, NS)[k % 4]
        a.on_action("buy", buy)
    env = Environment("env", agents=pop.agents, social_graph=pop.social_graph, seed=2)
    sim = _sim([env, *pop.agents, inv, belt, top])          # no end time: sweeps are daemon
    sim.schedule(inv.start_event())
    for k, t in enumerate([0.0, H3, TH, TH, P7, M1, 2.0, 2.0 + TH]):
        sim.schedule(price_change(t, env, "milk", 3.0, 3.0 - 0.2 * k))
    sim.run()
    return {"dec": pop.stats.total_decisions, "sp": inv.stats.total_spoiled, "so": inv.stats.stockouts,
            "top": top.events_processed}


def ops_x_pool_batch_shift_quantiles():
    from happysimulator.components.industrial import BatchProcessor, Shift, ShiftedServer, ShiftSchedule
    from happysimulator.components.scheduling import WorkStealingPool
    from happysimulator.components.sketching import QuantileEstimator
    _seed(803)
    est = QuantileEstimator("lat", value_extractor=lambda e: (e.time - e.context["created_at"]).to_seconds())
    srv = ShiftedServer("pack", ShiftSchedule([Shift(0.0, 1.25, 2), Shift(1.25, 2.5, 1), Shift(2.5, 9.0, 3)]),
                        service_time=TH / 2, downstream=est)
    bp = BatchProcessor("bp", srv, batch_size=4, process_time=H3, timeout_s=P7)
    pool = WorkStealingPool("pool", num_workers=3, downstream=bp, default_processing_time=M1 / 10)
    src = _source(pool, 20, 3.0)
    sim = _sim([pool, bp, srv, est], end=6.0, sources=[src])
    sim.run()
    return {"pool": pool.stats.tasks_completed, "b": bp.batches_processed, "srv": srv.processed,
            "est": est.events_processed}


def ops_x_split_merge_over_infra():
    from happysimulator.components.industrial import SplitMerge
    from happysimulator.components.infrastructure import HDD, CPUScheduler, DiskIO, FairShare, PageCache
    _seed(804)
    sink = _sink()
    cpu = CPUScheduler("cpu", policy=FairShare(quantum_s=TH / 100), context_switch_s=NS)
    disk = DiskIO("disk", profile=HDD(seek_time_s=H3 / 100))
    cache = PageCache("pc", capacity_pages=16, disk_read_latency_s=M1 / 1000)

    def cpu_body(w, ev):
        yield from cpu.execute(f"c{ev.context['i']}-{w.name}", cpu_time_s=0.01 * (1 + ev.context["i"] % 3))
        ev.context["reply_future"].resolve("cpu")

    def disk_body(w, ev):
        yield from disk.read(8192)
        yield from disk.write(100)
        ev.context["reply_future"].resolve("disk")

    def cache_body(w, ev):
        yield from cache.read_page(ev.context["i"])
        ev.context["reply_future"].resolve("cache")
    ws = [_driver("wcpu", cpu_body), _driver("wdisk", disk_body), _driver("wcache", cache_body)]
    sm = SplitMerge("sm", ws, sink)
    sim = _sim([sm, cpu, disk, cache, *ws, sink])
    _inject(sim, sm, [0.0, 0.0, 0.0, 0.005, H3 / 10, TH / 10, P7 / 10, M1 / 10])
    sim.run()
    return {"merged": sm.stats.merges_completed, "sink": sink.events_received}


def ops_x_preempt_then_pooled():
    from happysimulator import Event
    from happysimulator.components.industrial import ConditionalRouter, PooledCycleResource, PreemptibleResource
    _seed(805)
    sink, lost = _sink(), _sink("lost")
    pool = PooledCycleResource("wash", pool_size=1, cycle_time=TH, downstream=sink, queue_capacity=2)
    router = ConditionalRouter("r", [(lambda e: e.context["i"] % 2 == 0, pool)], default=lost)
    dock = PreemptibleResource("dock", capacity=1)

    def body(w, ev):
        i = ev.context["i"]
        g = yield dock.acquire(1, priority=float(i % 3), preempt=True)
        yield (H3, P7, NS)[i % 3]
        if g.preempted:
            return [Event(time=w.now, event_type="Bumped", target=lost, context=ev.context)]
        g.release()
        return [Event(time=w.now, event_type="Wash", target=router, context=ev.context)]
    ws = [_driver(f"truck{k}", body) for k in range(8)]
    sim = _sim([dock, router, pool, sink, lost, *ws], end=9.0)
    for k, w in enumerate(ws):
        _inject(sim, w, [(0.0, 0.0, 0.0, H3, H3, TH, P7, M1)[k]], etype="go", ctx={"i": k})
    sim.run()
    return {"pre": dock.stats.preemptions, "washed": pool.completed, "sink": sink.events_received,
            "lost": lost.events_received}


SCENARIOS = {}


def _register(ns):
    for k, v in list(ns.items()):
        if k.startswith("ops_") and callable(v):
            SCENARIOS[k] = v


_register(globals())
