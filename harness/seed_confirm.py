"""Coordinator tool: confirm a seeded change delivered by a mutation sub-agent and record what catches it.

usage: python -m harness.seed_confirm <src dir with patch.diff, demo.py, notes.md> <PID> <seed id>
         [--checks C01,C07] [--no-suite] [--tier quick]

Steps (all in a scratch worktree of /repo HEAD, removed afterwards; /repo itself is never touched):
  1. demo.py on the clean tree must pass (exit 0);
  2. apply patch.diff; demo.py must now fail (exit != 0);
  3. the repository's full test suite must pass with the patch (unless --no-suite);
  4. run ./vcheck for the listed checks (default: the property's own) against the patched tree with
     evidence/replays redirected to a scratch dir; record exit code and VIOLATION lines;
  5. write /verif/seeded/<seed id>/{patch.diff, demo.py, notes.md, meta.json}.
"""
from __future__ import annotations

import json
import shutil
import subprocess
import sys
import time
from pathlib import Path

VERIF = Path(__file__).resolve().parent.parent


def sh(cmd, timeout=None, env=None):
    import os
    e = dict(os.environ)
    if env:
        e.update(env)
    try:
        p = subprocess.run(cmd, shell=True, text=True, capture_output=True, timeout=timeout, env=e)
        return p.returncode, p.stdout + p.stderr
    except subprocess.TimeoutExpired as ex:
        return 124, f"TIMEOUT after {timeout}s\n" + str(ex.stdout or "")[-2000:]


def main():
    args = [a for a in sys.argv[1:] if not a.startswith("--")]
    opts = [a for a in sys.argv[1:] if a.startswith("--")]
    src, pid, sid = Path(args[0]), args[1], args[2]
    checks = [pid]
    tier = "quick"
    for o in opts:
        if o.startswith("--checks="):
            checks = o.split("=", 1)[1].split(",")
        if o.startswith("--tier="):
            tier = o.split("=", 1)[1]
    suite = "--no-suite" not in opts
    wt = f"/tmp/seedwt_{sid}"
    scratch = Path(f"/tmp/seedout_{sid}")
    sh(f"git -C /repo worktree remove --force {wt}")
    shutil.rmtree(scratch, ignore_errors=True)
    scratch.mkdir(parents=True)
    rc, out = sh(f"git -C /repo worktree add --detach {wt} HEAD")
    if rc:
        print(out)
        return 2
    meta = {"id": sid, "property": pid, "source": str(src), "repo_head": sh("git -C /repo rev-parse --short HEAD")[1].strip(),
            "ran": []}
    try:
        rc, out = sh(f"cd {src} && PYTHONPATH={wt} /venv/bin/python demo.py", timeout=900)
        meta["demo_on_clean_tree"] = {"exit": rc, "tail": out[-600:]}
        meta["ran"].append("demo.py on clean HEAD")
        rc2, out2 = sh(f"git -C {wt} apply {src/'patch.diff'}")
        if rc2:
            meta["patch_applies"] = False
            meta["apply_error"] = out2[-800:]
            print("PATCH DOES NOT APPLY", out2[-400:])
            return finish(meta, src, sid, confirmed=False)
        meta["patch_applies"] = True
        rc, out = sh(f"cd {src} && PYTHONPATH={wt} /venv/bin/python demo.py", timeout=900)
        meta["demo_with_patch"] = {"exit": rc, "tail": out[-600:]}
        meta["ran"].append("demo.py with patch")
        if suite:
            t0 = time.time()
            rc, _ = sh(f"cd {wt} && /venv/bin/python -m pytest -q -p no:cacheprovider --timeout=900 "
                       f"--continue-on-collection-errors -p no:warnings -x > {scratch}/suite.txt 2>&1", timeout=7200)
            out = sh(f"tail -4 {scratch}/suite.txt")[1]
            passed = rc == 0
            meta["suite_with_patch"] = {"passed": passed, "tail": out[-400:], "wall_s": round(time.time() - t0)}
            meta["ran"].append("full test suite with patch")
        results = {}
        for c in checks:
            env = {"VERIF_REPO": wt, "VERIF_EVIDENCE_DIR": str(scratch / "evidence"),
                   "VERIF_REPLAYS_DIR": str(scratch / "replays")}
            t0 = time.time()
            rc, out = sh(f"cd {VERIF} && ./vcheck {c} --tier {tier}", timeout=7200, env=env)
            lines = [l for l in out.splitlines() if l.startswith(("VIOLATION", "  what:", "KNOWN-FINDING", "DRIFT"))
                     or l.startswith(c + " ")]
            results[c] = {"exit": rc, "lines": lines[:30], "wall_s": round(time.time() - t0)}
            meta["ran"].append(f"VERIF_REPO=<patched tree> ./vcheck {c} --tier {tier}")
            print(c, "exit", rc, *lines[:6], sep="\n  ")
        meta["checks"] = results
        meta["caught_by"] = sorted(c for c, r in results.items() if r["exit"] == 1)
        confirmed = (meta["demo_on_clean_tree"]["exit"] == 0 and meta["demo_with_patch"]["exit"] != 0
                     and (not suite or meta["suite_with_patch"]["passed"]))
        return finish(meta, src, sid, confirmed)
    finally:
        sh(f"git -C /repo worktree remove --force {wt}")
        shutil.rmtree(scratch, ignore_errors=True)


def finish(meta, src, sid, confirmed):
    meta["confirmed"] = bool(confirmed)
    notes = (src / "notes.md").read_text() if (src / "notes.md").exists() else ""
    meta["needs_to_manifest"] = notes[:1500]
    out = VERIF / "seeded" / sid
    if confirmed:
        out.mkdir(parents=True, exist_ok=True)
        for f in ("patch.diff", "demo.py", "notes.md"):
            if (src / f).exists():
                shutil.copy(src / f, out / f)
        (out / "meta.json").write_text(json.dumps(meta, indent=1) + "\n")
    else:
        rej = VERIF / ".work" / "seed_rejected"
        rej.mkdir(parents=True, exist_ok=True)
        (rej / f"{sid}.json").write_text(json.dumps(meta, indent=1) + "\n")
    print(json.dumps({k: meta.get(k) for k in ("id", "confirmed", "caught_by")}, indent=1))
    return 0 if confirmed else 1


if __name__ == "__main__":
    sys.exit(main())
