#!/bin/sh
# Offline setup: nothing to install. Syntax-check the specs of every claimed engine and
# byte-compile the harness.
set -e
cd "$(dirname "$0")"
mkdir -p .work evidence replays
/venv/bin/python -m compileall -q harness >/dev/null
CP=/opt/veriftools/tla/tla2tools.jar:/opt/veriftools/tla/CommunityModules-deps.jar
for d in $(/venv/bin/python -c "import json;print(' '.join(sorted({e['path'] for e in json.load(open('MANIFEST.json'))['engines']})))"); do
  for f in "$d"/*.tla; do
    [ -f "$f" ] || continue
    ( cd "$d" && java -cp "$CP" tla2sany.SANY "$(basename "$f")" >/dev/null 2>&1 ) || { echo "SANY failed: $f"; exit 1; }
  done
done
echo setup ok
