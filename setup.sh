#!/bin/sh
# Offline setup: nothing to install. Syntax-check every spec and byte-compile the harness.
set -e
cd "$(dirname "$0")"
mkdir -p .work evidence replays
/venv/bin/python -m compileall -q harness >/dev/null
for f in specs/*/*.tla; do
  ( cd "$(dirname "$f")" && java -cp /opt/veriftools/tla/tla2tools.jar:/opt/veriftools/tla/CommunityModules-deps.jar tla2sany.SANY "$(basename "$f")" >/dev/null 2>&1 ) || { echo "SANY failed: $f"; exit 1; }
done
echo setup ok
